import random, sys, itertools
from gen import rand_instance, desc
from job_shop_lib import JobShopInstance, Operation, Schedule
from job_shop_lib.dispatching import *
from job_shop_lib.graphs import *
import networkx as nx
fails={}
def fail(k,seed): fails.setdefault(k,[]).append(seed)
N=int(sys.argv[1])
for seed in range(N):
    rng=random.Random(seed)
    inst=rand_instance(rng)
    jobs=desc(inst)
    nops=inst.num_operations; nm=inst.num_machines; nj=inst.num_jobs
    opid={}
    k=0
    for j,job in enumerate(jobs):
        for p,_ in enumerate(job): opid[j,p]=k; k+=1
    # disjunctive spec
    g=build_disjunctive_graph(inst)
    exp={}
    S=nops; T=nops+1
    for m in range(nm):
        ops=[opid[j,p] for j,job in enumerate(jobs) for p,(ms,d) in enumerate(job) if m in ms]
        for a,b in itertools.permutations(ops,2): exp.setdefault((a,b),set()).add(EdgeType.DISJUNCTIVE)
    for j,job in enumerate(jobs):
        for p in range(1,len(job)): exp.setdefault((opid[j,p-1],opid[j,p]),set()).add(EdgeType.CONJUNCTIVE)
        exp.setdefault((S,opid[j,0]),set()).add(EdgeType.CONJUNCTIVE); exp.setdefault((opid[j,len(job)-1],T),set()).add(EdgeType.CONJUNCTIVE)
    got={(a,b):dct.get('type') for a,b,dct in g.graph.edges(data=True)}
    if set(got)!=set(exp): fail(('disj edges',),seed)
    elif any(got[e] not in exp[e] for e in got): fail(('disj types',),seed)
    types=[n.node_type for n in g.nodes]
    if types!=[NodeType.OPERATION]*nops+[NodeType.SOURCE,NodeType.SINK]: fail(('disj nodes',),seed)
    if any(n.node_id!=i for i,n in enumerate(g.nodes)) or any(g.nodes[i].operation.operation_id!=i for i in range(nops)): fail(('ids',),seed)
    # agent-task
    for B,withjobs,glob,mm,jj,same in [(build_agent_task_graph,False,False,True,False,True),(build_agent_task_graph_with_jobs,True,False,True,True,False),(build_complete_agent_task_graph,True,True,False,False,False)]:
        g=B(inst)
        E=set()
        M0=nops; J0=nops+nm; 
        for j,job in enumerate(jobs):
            for p,(ms,d) in enumerate(job):
                for m in ms: E|={(opid[j,p],M0+m),(M0+m,opid[j,p])}
        if mm:
            for a,b in itertools.permutations(range(nm),2): E.add((M0+a,M0+b))
        if withjobs:
            for j,job in enumerate(jobs):
                for p in range(len(job)): E|={(opid[j,p],J0+j),(J0+j,opid[j,p])}
        if jj:
            for a,b in itertools.permutations(range(nj),2): E.add((J0+a,J0+b))
        if same:
            for j,job in enumerate(jobs):
                for a,b in itertools.permutations(range(len(job)),2): E.add((opid[j,a],opid[j,b]))
        if glob:
            G0=nops+nm+nj
            for m in range(nm): E|={(G0,M0+m),(M0+m,G0)}
            for j in range(nj): E|={(G0,J0+j),(J0+j,G0)}
        if set(g.graph.edges())!=E: fail(('agent edges',B.__name__),seed)
        expn=nops+nm+(nj if withjobs else 0)+(1 if glob else 0)
        if len(g.nodes)!=expn: fail(('agent nodes',B.__name__),seed)
    # solved graph
    pos=all(d>0 for job in jobs for _,d in job)
    if pos:
        d=Dispatcher(inst)
        while not d.schedule.is_complete():
            op=rng.choice(d.raw_ready_operations()); d.dispatch(op, rng.choice(op.machines))
        sg=build_solved_disjunctive_graph(d.schedule)
        if not nx.is_directed_acyclic_graph(sg.graph): fail(('solved cyclic',),seed)
        else:
            dur={n.node_id:(n.operation.duration if n.node_type==NodeType.OPERATION else 0) for n in sg.nodes}
            dist={}
            for v in nx.topological_sort(sg.graph):
                dist[v]=dur[v]+max([dist[u] for u in sg.graph.predecessors(v)], default=0)
            lp=dist[nops+1]
            if lp!=d.schedule.makespan(): fail(('longest path != makespan', 'flex' if inst.is_flexible else 'nonflex'),seed)
for k,v in sorted(fails.items(), key=str): print(k, len(set(v)), sorted(set(v))[:6])
print('done')
