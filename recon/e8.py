import random, sys, time
from gen import rand_instance, desc
from job_shop_lib import JobShopInstance, Operation
from job_shop_lib.constraint_programming import ORToolsSolver
from job_shop_lib.exceptions import *
fails={}
def fail(k,seed): fails.setdefault(k,[]).append(seed)
N=int(sys.argv[1]); t0=time.time()
s=ORToolsSolver()
for seed in range(N):
    rng=random.Random(seed)
    inst=rand_instance(rng, flexible=False, zero=True, max_jobs=3,max_machines=3,max_ops=3)
    try:
        sch=s(inst)
        if sch.metadata['status']!='optimal': fail(('notopt',),seed)
        if sch.metadata['makespan']!=sch.makespan(): fail(('meta makespan',),seed)
    except Exception as e:
        fail(('exc',type(e).__name__,str(e)[:70]),seed)
for k,v in sorted(fails.items(), key=str): print(k, len(set(v)), sorted(set(v))[:6])
print("time per solve", (time.time()-t0)/N)
