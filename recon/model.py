"""Throwaway reference model for exploration."""
class Model:
    def __init__(self, jobs, filt=None):
        # jobs: list of list of (machines(list), duration)
        self.jobs=jobs; self.nj=len(jobs)
        self.nm=max(m for j in jobs for (ms,d) in j for m in ms)+1
        self.filt=filt
        self.hist=[]  # (j,p,m,start,end)
        self.reset()
    def reset(self):
        self.hist=[]; self.nxt=[0]*self.nj; self.javail=[0]*self.nj; self.mavail=[0]*self.nm
        self.msched=[[] for _ in range(self.nm)]
    def ready(self):
        return [(j,self.nxt[j]) for j in range(self.nj) if self.nxt[j]<len(self.jobs[j])]
    def start(self,j,p,m): return max(self.mavail[m], self.javail[j])
    def min_start(self, ops):
        if not ops: return self.makespan()
        return min(self.start(j,p,m) for (j,p) in ops for m in self.jobs[j][p][0])
    def makespan(self): return max([e for (_,_,_,_,e) in self.hist], default=0)
    def est1(self,j,p): return max(min(self.mavail[m] for m in self.jobs[j][p][0]), self.javail[j])
    # filters
    def f_dominated(self, ops):
        if any(self.jobs[j][p][1]==0 for j,p in ops): return None  # unspecified
        minend={}
        for j,p in ops:
            for m in self.jobs[j][p][0]:
                e=self.start(j,p,m)+self.jobs[j][p][1]
                minend[m]=min(minend.get(m,1e18),e)
        return [(j,p) for j,p in ops if any(self.start(j,p,m)<minend[m] for m in self.jobs[j][p][0])]
    def f_non_immediate_machines(self, ops):
        t=self.min_start(ops)
        imm={m for j,p in ops for m in self.jobs[j][p][0] if self.start(j,p,m)==t}
        return [(j,p) for j,p in ops if any(m in imm for m in self.jobs[j][p][0])]
    def f_non_idle_machines(self, ops):
        t=self.min_start(ops)
        busy={m for (_,_,m,s,e) in self.hist if e>t}
        return [(j,p) for j,p in ops if any(m not in busy for m in self.jobs[j][p][0])]
    def f_non_immediate_operations(self, ops):
        t=self.min_start(ops)
        return [(j,p) for j,p in ops if self.est1(j,p)==t]
    def available(self):
        ops=self.ready()
        for name in (self.filt or []):
            r=getattr(self,'f_'+name.replace('dominated_operations','dominated'))(ops)
            if r is None: return None
            ops=r
        return ops
    def now(self):
        av=self.available()
        if av is None: return None
        return self.min_start(av)
    def dispatch(self,j,p,m):
        assert self.nxt[j]==p and m in self.jobs[j][p][0]
        s=self.start(j,p,m); e=s+self.jobs[j][p][1]
        self.hist.append((j,p,m,s,e)); self.nxt[j]+=1; self.javail[j]=e; self.mavail[m]=e; self.msched[m].append((j,p,s,e))
        return s,e
    def est_all(self):
        """EST for unscheduled ops by forward recursion."""
        est={}
        for j in range(self.nj):
            prev_end=self.javail[j]
            for p in range(self.nxt[j], len(self.jobs[j])):
                ms,d=self.jobs[j][p]
                s=max(prev_end, min(self.mavail[m] for m in ms))
                est[(j,p)]=s; prev_end=s+d
        return est
