import random, sys, itertools
from gen import rand_instance, desc
from model import Model
from job_shop_lib import JobShopInstance, Operation
from job_shop_lib.dispatching import *
from job_shop_lib.dispatching.rules import *
fails={}
def fail(k,seed): fails.setdefault(k,[]).append(seed)
NAMES=['dominated_operations','non_immediate_machines','non_idle_machines','non_immediate_operations']
RULES=list(DispatchingRuleType)
N=int(sys.argv[1])
for seed in range(N):
    rng=random.Random(seed); random.seed(seed)
    inst=rand_instance(rng, zero=(rng.random()<0.2))
    jobs=desc(inst)
    pos=all(d>0 for j in jobs for _,d in j)
    k=rng.randint(0,2)
    names=[rng.choice(NAMES) for _ in range(k)] if pos else []
    filt = None if not names else (names[0] if len(names)==1 and rng.random()<0.5 else names)
    rule=rng.choice(RULES); chooser=rng.choice(list(MachineChooserType))
    try:
        solver=DispatchingRuleSolver(rule.value, chooser.value, filt)
    except Exception as e:
        fail(('ctor',type(e).__name__,str(e)[:60]),seed); continue
    d=Dispatcher(inst, ready_operations_filter=solver.ready_operations_filter)
    M=Model(jobs, names)
    steps=0
    try:
        # init observer-based rule at state 0
        while not d.schedule.is_complete():
            av=M.available(); 
            sel=solver.dispatching_rule(d)
            key=(sel.job_id,sel.position_in_job)
            if key not in av: fail(('selected not available',rule.value),seed)
            rem_work={j:sum(M.jobs[j][p][1] for p in range(M.nxt[j],len(M.jobs[j]))) for j in range(M.nj)}
            rem_ops={j:len(M.jobs[j])-M.nxt[j] for j in range(M.nj)}
            now=M.now()
            unc_ops={j:rem_ops[j]+sum(1 for h in M.hist if h[0]==j and h[4]>now) for j in range(M.nj)}
            if rule==DispatchingRuleType.SHORTEST_PROCESSING_TIME and M.jobs[key[0]][key[1]][1]!=min(M.jobs[j][p][1] for j,p in av): fail(('spt',),seed)
            if rule==DispatchingRuleType.FIRST_COME_FIRST_SERVED and key[1]!=min(p for j,p in av): fail(('fcfs',),seed)
            if rule==DispatchingRuleType.MOST_WORK_REMAINING and rem_work[key[0]]!=max(rem_work[j] for j,p in av): fail(('mwkr',),seed)
            if rule==DispatchingRuleType.MOST_OPERATIONS_REMAINING:
                a=rem_ops[key[0]]==max(rem_ops[j] for j,p in av); b=unc_ops[key[0]]==max(unc_ops[j] for j,p in av)
                if not a and not b: fail(('mopnr neither',),seed)
                elif not a: fail(('mopnr not-by-unscheduled(info)',),seed)
                elif not b: fail(('mopnr not-by-uncompleted(info)',),seed)
            # observer-based vs direct
            o1=most_work_remaining_rule(d); o2=observer_based_most_work_remaining_rule(d)
            if o1 is not o2: fail(('observer-based differs',),seed)
            m=solver.machine_chooser(d, sel)
            d.dispatch(sel,m); M.dispatch(key[0],key[1],m); steps+=1
            if steps>1000: fail(('nonterminating',),seed); break
    except Exception as e:
        fail(('exc',rule.value,type(e).__name__,str(e)[:60]),seed)
    # tie-breaker rule
    d2=Dispatcher(inst, ready_operations_filter=solver.ready_operations_filter)
    fs=rng.sample([shortest_processing_time_score, first_come_first_served_score, MostWorkRemainingScorer(), most_operations_remaining_score], rng.randint(1,3))
    r=score_based_rule_with_tie_breaker(fs)
    try:
        while not d2.schedule.is_complete():
            av=d2.available_operations()
            sel=r(d2)
            if sel not in av: fail(('tb not avail',),seed)
            sc=[f(d2) for f in fs]
            tup=lambda o: tuple(s[o.job_id] for s in sc)
            if tup(sel)!=max(tup(o) for o in av): fail(('tb not lexmax',),seed)
            d2.dispatch(sel, sel.machines[0])
    except Exception as e:
        fail(('tb exc',type(e).__name__,str(e)[:60], tuple(getattr(f,'__name__',type(f).__name__) for f in fs)),seed)
for k,v in sorted(fails.items(), key=str): print(k, len(set(v)), sorted(set(v))[:6])
print('done')
