import random, sys
import numpy as np
from gen import rand_instance, desc
from job_shop_lib import JobShopInstance, Operation
from job_shop_lib.dispatching import DispatcherObserverConfig, filter_dominated_operations
from job_shop_lib.dispatching.feature_observers import FeatureObserverType, FeatureType
from job_shop_lib.graphs import *
from job_shop_lib.graphs.graph_updaters import ResidualGraphUpdater
from job_shop_lib.reinforcement_learning import SingleJobShopGraphEnv, MakespanReward, IdleTimeReward
fails={}
def fail(k,seed): fails.setdefault(k,[]).append(seed)
BUILDERS=[build_disjunctive_graph, build_agent_task_graph, build_complete_agent_task_graph, build_agent_task_graph_with_jobs]
for seed in range(int(sys.argv[1])):
    rng=random.Random(seed)
    inst=rand_instance(rng, zero=rng.random()<0.3)
    builder=rng.choice(BUILDERS)
    cfgs=[]
    for t in FeatureObserverType:
        if rng.random()<0.6:
            sup=[FeatureType.OPERATIONS] if t==FeatureObserverType.POSITION_IN_JOB else ([FeatureType.MACHINES,FeatureType.JOBS] if t==FeatureObserverType.REMAINING_OPERATIONS else list(FeatureType))
            fts=[f for f in sup if rng.random()<0.7] or sup
            cfgs.append(DispatcherObserverConfig(t, kwargs={"feature_types":fts}))
    if not cfgs: cfgs=[DispatcherObserverConfig(FeatureObserverType.IS_READY)]
    pad=rng.random()<0.5
    upd=DispatcherObserverConfig(ResidualGraphUpdater, kwargs={"remove_completed_machine_nodes": rng.random()<0.5,"remove_completed_job_nodes": rng.random()<0.5})
    try:
        env=SingleJobShopGraphEnv(builder(inst), cfgs, graph_updater_config=upd, ready_operations_filter=None, use_padding=pad)
    except ValueError as e:
        continue
    except Exception as e:
        fail(('ctor',type(e).__name__,str(e)[:80]),seed); continue
    try:
        obs,_=env.reset()
        shapes={k:v.shape for k,v in obs.items()}
        ok=env.observation_space.contains(obs)
        if not ok and pad: fail(('reset obs not in space (pad)',),seed)
        done=False
        while not done:
            op=rng.choice(env.dispatcher.available_operations()); m=rng.choice(op.machines)
            obs,r,done,tr,info=env.step((op.job_id,m))
            if pad and not env.observation_space.contains(obs):
                bad=[k for k in obs if not env.observation_space[k].contains(obs[k])]
                fail(('step obs not in space (pad)',tuple(bad), tuple(str(obs[k].dtype) for k in bad)),seed); break
            if pad and {k:v.shape for k,v in obs.items()}!=shapes: fail(('shape changed',),seed)
            real=np.array(env.job_shop_graph.graph.edges()).T
            if real.size and not np.array_equal(obs['edge_index'][:, :real.shape[1]], real): fail(('edge mismatch',),seed)
            if pad and not np.all(obs['edge_index'][:, real.shape[1] if real.size else 0:]==-1): fail(('padding not -1',),seed)
    except Exception as e:
        fail(('exc',type(e).__name__,str(e)[:80]),seed)
for k,v in sorted(fails.items(), key=str): print(k, len(set(v)), sorted(set(v))[:6])
print('done')
