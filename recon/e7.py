import random, sys
import numpy as np
from gen import rand_instance, desc
from model import Model
from job_shop_lib import JobShopInstance, Operation
from job_shop_lib.dispatching import Dispatcher, filter_dominated_operations, HistoryObserver
from job_shop_lib.graphs import *
from job_shop_lib.graphs.graph_updaters import ResidualGraphUpdater
from job_shop_lib.reinforcement_learning import MakespanReward, IdleTimeReward
fails={}
def fail(k,seed): fails.setdefault(k,[]).append(seed)
BUILDERS=[build_disjunctive_graph, build_agent_task_graph, build_complete_agent_task_graph, build_agent_task_graph_with_jobs]
N=int(sys.argv[1])
for seed in range(N):
    rng=random.Random(seed)
    inst=rand_instance(rng, zero=False)
    jobs=desc(inst)
    builder=rng.choice(BUILDERS)
    filt=rng.choice([None, filter_dominated_operations])
    d=Dispatcher(inst, ready_operations_filter=filt)
    M=Model(jobs, ['dominated_operations'] if filt else [])
    g=builder(inst)
    rm_m=rng.random()<0.7; rm_j=rng.random()<0.7
    try:
        u=ResidualGraphUpdater(d,g,remove_completed_machine_nodes=rm_m, remove_completed_job_nodes=rm_j)
    except Exception as e:
        fail(('ctor',type(e).__name__,str(e)[:60]),seed); continue
    mk=MakespanReward(d); idl=IdleTimeReward(d); h=HistoryObserver(d)
    prev_removed=[False]*len(g.nodes)
    try:
        while not d.schedule.is_complete():
            raw=d.raw_ready_operations(); av=d.available_operations()
            op=rng.choice(raw if rng.random()<0.5 else av); m=rng.choice(op.machines)
            d.dispatch(op,m); M.dispatch(op.job_id,op.position_in_job,m)
            now=M.now(); G=u.job_shop_graph
            comp={(x[0],x[1]) for x in M.hist if x[4]<=now}
            for node in G.nodes:
                r=G.removed_nodes[node.node_id]
                if prev_removed[node.node_id] and not r: fail(('unremoved',),seed)
                if r and node.node_id in G.graph: fail(('removed-but-in-graph',),seed)
                if (not r) and node.node_id not in G.graph: fail(('in-graph mismatch',),seed)
                if node.node_type==NodeType.OPERATION:
                    o=node.operation; key=(o.job_id,o.position_in_job)
                    if key in comp and not r: fail(('completed not removed',builder.__name__),seed)
                    if o.position_in_job>=M.nxt[o.job_id] and r: fail(('unscheduled removed',builder.__name__),seed)
                elif node.node_type==NodeType.MACHINE:
                    left=any(node.machine_id in M.jobs[j][p][0] for j in range(M.nj) for p in range(M.nxt[j],len(M.jobs[j])))
                    if r and left: fail(('machine removed with unscheduled ops',builder.__name__),seed)
                elif node.node_type==NodeType.JOB:
                    if r and M.nxt[node.job_id]<len(M.jobs[node.job_id]): fail(('job removed with unscheduled ops',builder.__name__),seed)
            for a,b in G.graph.edges():
                if G.removed_nodes[a] or G.removed_nodes[b]: fail(('edge touches removed',),seed)
            prev_removed=list(G.removed_nodes)
            # rewards
            if len(mk.rewards)!=len(M.hist) or sum(mk.rewards)!=-M.makespan(): fail(('makespan reward',),seed)
            idle=0
            for ms in M.msched:
                t=0
                for (_,_,s,e) in ms: idle+=s-t; t=e
            if len(idl.rewards)!=len(M.hist) or sum(idl.rewards)!=-idle: fail(('idle reward',),seed)
            if any(r>0 for r in mk.rewards+idl.rewards): fail(('positive reward',),seed)
            if [(x.operation.job_id,x.operation.position_in_job,x.machine_id,x.start_time) for x in h.history]!=[(a,b,c,s) for (a,b,c,s,e) in M.hist]: fail(('history',),seed)
        allused=all(inst.operations_by_machine)
        if rm_m and rm_j and allused and not all(u.job_shop_graph.removed_nodes): fail(('not all removed at end',builder.__name__),seed)
    except Exception as e:
        fail(('exc',type(e).__name__,str(e)[:80]),seed)
for k,v in sorted(fails.items(), key=str): print(k, len(set(v)), sorted(set(v))[:6])
print("done")
