import random
from gen import rand_instance, desc
from job_shop_lib.constraint_programming import ORToolsSolver
for seed in (5,10,16):
    rng=random.Random(seed)
    inst=rand_instance(rng, flexible=False, zero=True, max_jobs=3,max_machines=3,max_ops=3)
    print(desc(inst))
    s=ORToolsSolver()
    try: s(inst)
    except Exception as e:
        vals={ (op.job_id,op.position_in_job,op.machine_id,op.duration): s.solver.Value(v[0]) for op,v in s._operations_start.items()}
        print(vals)
