import random, sys
import numpy as np
from gen import rand_instance, desc
from job_shop_lib import JobShopInstance, Operation
from job_shop_lib.dispatching import *
from job_shop_lib.dispatching.feature_observers import *
from job_shop_lib.graphs import *
from job_shop_lib.graphs.graph_updaters import ResidualGraphUpdater
from job_shop_lib.reinforcement_learning import MakespanReward, IdleTimeReward
fails={}
def fail(k,seed): fails.setdefault(k,[]).append(seed)
KINDS=['is_ready','earliest_start_time','duration','is_scheduled','position_in_job','remaining_operations','is_completed','unsched','history','makespan','idle','residual','composite']
def build(inst, order, filt):
    d=Dispatcher(inst, ready_operations_filter=filt); obs={}
    for k in order:
        try:
            if k in [t.value for t in FeatureObserverType]: obs[k]=feature_observer_factory(k, dispatcher=d)
            elif k=='unsched': obs[k]=d.create_or_get_observer(UnscheduledOperationsObserver)
            elif k=='history': obs[k]=HistoryObserver(d)
            elif k=='makespan': obs[k]=MakespanReward(d)
            elif k=='idle': obs[k]=IdleTimeReward(d)
            elif k=='residual': obs[k]=ResidualGraphUpdater(d, build_complete_agent_task_graph(inst))
            elif k=='composite': obs[k]=CompositeFeatureObserver(d)
        except ValueError: pass
    return d,obs
def state(k,o):
    if isinstance(o,FeatureObserver):
        s={ft.value:np.nan_to_num(v,nan=-777).tolist() for ft,v in o.features.items()}
        if k=='earliest_start_time': s['m']=np.nan_to_num(o.earliest_start_times,nan=-777).tolist()
        if k=='is_completed': s['r']=(o.remaining_ops_per_job.tolist(), o.remaining_ops_per_machine.tolist())
        return s
    if k=='unsched': return [[op.operation_id for op in dq] for dq in o.unscheduled_operations_per_job]
    if k=='history': return [x.operation.operation_id for x in o.history]
    if k in('makespan','idle'): return list(o.rewards)
    if k=='residual': return (list(o.job_shop_graph.removed_nodes), sorted(o.job_shop_graph.graph.edges()))
for seed in range(int(sys.argv[1])):
    rng=random.Random(seed)
    inst=rand_instance(rng, zero=False)
    order=[k for k in KINDS if rng.random()<0.7]; rng.shuffle(order)
    filt=rng.choice([None,filter_dominated_operations])
    dA,oA=build(inst,order,filt); dB,oB=build(inst,order,filt)
    h1=[]
    n1=rng.randint(1,inst.num_operations)
    for _ in range(n1):
        op=rng.choice(dA.raw_ready_operations()); m=rng.choice(op.machines); dA.dispatch(op,m)
    dA.reset()
    for k in oA:
        if k in oB and state(k,oA[k])!=state(k,oB[k]): fail(('after-reset',k),seed)
    while not dB.schedule.is_complete():
        op=rng.choice(dB.raw_ready_operations()); m=rng.choice(op.machines); dA.dispatch(dA.instance.jobs[op.job_id][op.position_in_job],m); dB.dispatch(op,m)
        for k in oA:
            if k in oB and state(k,oA[k])!=state(k,oB[k]): fail(('ep2',k),seed)
for k,v in sorted(fails.items(), key=str): print(k, len(set(v)), sorted(set(v))[:6])
print('done')
