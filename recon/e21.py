from job_shop_lib import JobShopInstance, Operation
from job_shop_lib.constraint_programming import ORToolsSolver
from job_shop_lib.exceptions import NoSolutionFoundError
from ortools.sat.python import cp_model
import job_shop_lib.constraint_programming._ortools_solver as mod
for jobs in ([[(0,6)],[(0,1)]],):
    inst=JobShopInstance([[Operation(m,d) for m,d in j] for j in jobs])
    s=ORToolsSolver()
    try:
        sch=s(inst); print(jobs,"ok",sch.schedule, len(s.model.Proto().variables), inst.num_operations)
    except Exception as e: print(jobs,"EXC",type(e).__name__)
# seam
statuses=[]
Real=cp_model.CpSolver
class SimCpSolver(Real):
    budget=None
    def __init__(self):
        super().__init__(); self.parameters.num_workers=1; self.parameters.random_seed=7
        if SimCpSolver.budget is not None: self.parameters.max_deterministic_time=SimCpSolver.budget
    def solve(self, model, *a, **k):
        st=super().solve(model,*a,**k); statuses.append(self.status_name(st)); return st
cp_model.CpSolver=SimCpSolver
from job_shop_lib.benchmarking import load_benchmark_instance
ft06=load_benchmark_instance("ft06")
import time
for b in (None, 0.0, 1e-6, 1e-3):
    SimCpSolver.budget=b
    s=ORToolsSolver()
    t=time.time()
    try:
        sch=s(ft06); print("budget",b,"->",sch.metadata['status'],sch.metadata['makespan'], statuses[-1], round(time.time()-t,3))
    except NoSolutionFoundError as e: print("budget",b,"-> NoSolution", statuses[-1])
SimCpSolver.budget=None
for lim in (1e-9, 0.0):
    s=ORToolsSolver(max_time_in_seconds=lim)
    try:
        sch=s(ft06); print("lim",lim,"->",sch.metadata['status'],sch.metadata['makespan'], statuses[-1])
    except NoSolutionFoundError as e: print("lim",lim,"-> NoSolution", statuses[-1])
# determinism with 1 worker
outs=[]
for _ in range(3):
    s=ORToolsSolver(); sch=s(ft06); outs.append([[ (o.operation.operation_id,o.start_time) for o in ms] for ms in sch.schedule])
print("deterministic:", outs[0]==outs[1]==outs[2])
