import random, sys
import numpy as np
from job_shop_lib.dispatching import DispatcherObserverConfig, filter_dominated_operations
from job_shop_lib.dispatching.feature_observers import FeatureObserverType, FeatureType
from job_shop_lib.graphs import *
from job_shop_lib.graphs.graph_updaters import ResidualGraphUpdater
from job_shop_lib.generation import GeneralInstanceGenerator
from job_shop_lib.reinforcement_learning import MultiJobShopGraphEnv, IdleTimeReward
fails={}
def fail(k,seed): fails.setdefault(k,[]).append(seed)
N=int(sys.argv[1])
for seed in range(N):
    rng=random.Random(seed)
    builder=rng.choice([build_disjunctive_graph, build_agent_task_graph, build_complete_agent_task_graph, build_agent_task_graph_with_jobs])
    recirc=rng.random()<0.4; mpo=rng.choice([1,1,(1,2),2])
    gen=GeneralInstanceGenerator(num_jobs=(2,4), num_machines=(2,3), duration_range=(1,9), allow_recirculation=recirc, machines_per_operation=mpo, seed=seed)
    cfg=DispatcherObserverConfig(ResidualGraphUpdater, kwargs={"remove_completed_machine_nodes": False})
    try:
        env=MultiJobShopGraphEnv(gen, [DispatcherObserverConfig(FeatureObserverType.IS_READY)], graph_initializer=builder, graph_updater_config=cfg, reward_function_config=DispatcherObserverConfig(IdleTimeReward))
    except Exception as e:
        fail(('ctor',type(e).__name__,str(e)[:60]),seed); continue
    for ep in range(3):
        try:
            obs,_=env.reset()
        except Exception as e:
            fail(('reset exc',type(e).__name__,str(e)[:50], builder.__name__, recirc, str(mpo)),seed); break
        if not env.observation_space.contains(obs): fail(('obs not in space',builder.__name__),seed)
        if env.single_job_shop_graph_env.graph_updater.remove_completed_machine_nodes is not False: fail(('updater cfg dropped',),seed)
        if not isinstance(env.reward_function, IdleTimeReward): fail(('reward cfg dropped',),seed)
        done=False
        while not done:
            av=env.dispatcher.available_operations(); op=rng.choice(av); m=rng.choice(op.machines)
            obs,r,done,tr,info=env.step((op.job_id,m))
            if not env.observation_space.contains(obs): fail(('step obs not in space',builder.__name__),seed); break
for k,v in sorted(fails.items(), key=str): print(k, len(set(v)), sorted(set(v))[:6])
print('done')
