import random, sys
from job_shop_lib.generation import GeneralInstanceGenerator
# less jobs than machines
bad=0
g=GeneralInstanceGenerator(num_jobs=(2,4), num_machines=(2,6), allow_less_jobs_than_machines=False, seed=1)
for _ in range(200):
    i=g.generate()
    if i.num_jobs < max(len(j) for j in i.jobs): bad+=1
print("fewer jobs than machines when disallowed:", bad, "/200")
g=GeneralInstanceGenerator(num_jobs=3, num_machines=6, machines_per_operation=2, seed=1)
ms=set()
for _ in range(50):
    for job in g.generate().jobs:
        for op in job: ms|=set(op.machines)
print("machines used with mpo=2, M=6:", ms)
# interleaving
a=GeneralInstanceGenerator(num_jobs=3,num_machines=3,seed=5); x1=a.generate(); x2=a.generate()
b=GeneralInstanceGenerator(num_jobs=3,num_machines=3,seed=5); c=GeneralInstanceGenerator(num_jobs=3,num_machines=3,seed=5)
y1=b.generate(); z1=c.generate(); y2=b.generate(); z2=c.generate()
print("sequential same:", x1.durations_matrix==y1.durations_matrix, "interleaved: b2==x2?", y2.durations_matrix==x2.durations_matrix, "c1==x1?", z1.durations_matrix==x1.durations_matrix)
