import random, sys, traceback
from gen import rand_instance, desc
from job_shop_lib.dispatching import *
from job_shop_lib.dispatching import Dispatcher
FILTERS=[None, filter_dominated_operations, filter_non_immediate_machines, filter_non_idle_machines, filter_non_immediate_operations]
fails={}
for seed in range(3000):
    rng=random.Random(seed)
    inst=rand_instance(rng)
    f=rng.choice(FILTERS)
    d=Dispatcher(inst, ready_operations_filter=f)
    pos_dur = all(op.duration>0 for j in inst.jobs for op in j)
    prev_now=None
    try:
        steps=0
        while not d.schedule.is_complete():
            av=d.available_operations()
            raw=d.raw_ready_operations()
            if not av:
                fails.setdefault(('empty-available', f.__name__ if f else None, pos_dur),[]).append(seed); break
            now=d.current_time()
            if prev_now is not None and now<prev_now:
                fails.setdefault(('time-backwards', f.__name__ if f else None, pos_dur),[]).append(seed)
            prev_now=now
            # choose from raw (any ready op) or available
            op=rng.choice(raw if rng.random()<0.5 else av)
            m=rng.choice(op.machines)
            d.dispatch(op,m)
            steps+=1
        if d.schedule.is_complete():
            if d.current_time()!=d.schedule.makespan():
                fails.setdefault(('final-now!=makespan', f.__name__ if f else None, pos_dur),[]).append(seed)
    except Exception as e:
        fails.setdefault(('exc',type(e).__name__, str(e)[:60]),[]).append(seed)
for k,v in fails.items(): print(k, len(v), v[:5])
