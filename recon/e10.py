import random, sys, time
from gen import rand_instance, desc
from model import Model
from job_shop_lib import JobShopInstance, Operation
from job_shop_lib.dispatching import Dispatcher, filter_dominated_operations
sys.setrecursionlimit(10000)
def best(inst, filt):
    d=Dispatcher(inst, ready_operations_filter=filt)
    best=[10**9]; cnt=[0]
    hist=[]
    def rec():
        if d.schedule.is_complete():
            best[0]=min(best[0], d.schedule.makespan()); cnt[0]+=1; return
        for op in list(d.available_operations()):
            for m in op.machines:
                hist.append((op,m))
                d.dispatch(op,m)
                rec()
                hist.pop()
                d.reset()
                for o,mm in hist: d.dispatch(o,mm)
    rec()
    return best[0], cnt[0]
fails={}
N=int(sys.argv[1]); t0=time.time(); tot=0
for seed in range(N):
    rng=random.Random(seed)
    inst=rand_instance(rng, zero=False, max_jobs=3,max_machines=3,max_ops=3)
    if inst.num_operations>7: continue
    a,ca=best(inst,None); b,cb=best(inst,filter_dominated_operations); tot+=ca+cb
    if a!=b: fails.setdefault('mismatch',[]).append((seed,a,b))
print(fails, "leaves", tot, "time", time.time()-t0)
