import time, os, tempfile, random
import matplotlib; matplotlib.use("Agg")
import matplotlib.pyplot as plt
import numpy as np, imageio
from job_shop_lib import JobShopInstance, Operation
from job_shop_lib.dispatching import Dispatcher, HistoryObserver
from job_shop_lib.visualization import create_gantt_chart_gif, create_gantt_chart_video
import job_shop_lib.visualization._gantt_chart_video_and_gif_creation as mod
rng=random.Random(0)
inst=JobShopInstance([[Operation(rng.randrange(3), rng.randint(1,5)) for _ in range(21)] for _ in range(5)], name="big")
d=Dispatcher(inst); h=HistoryObserver(d)
while not d.schedule.is_complete():
    op=rng.choice(d.raw_ready_operations()); d.dispatch(op)
def plot_function(schedule, makespan=None, available_operations=None, current_time=None):
    n=schedule.num_scheduled_operations
    fig=plt.figure(figsize=(0.16,0.16), dpi=100)
    fig.patch.set_facecolor((n%256/255, (n//256)/255, 0.0))
    return fig
tmp=tempfile.mkdtemp()
t=time.time()
create_gantt_chart_gif(inst, gif_path=os.path.join(tmp,"a.gif"), plot_function=plot_function, schedule_history=h.history)
print("gif time", time.time()-t)
frames=imageio.mimread(os.path.join(tmp,"a.gif"))
vals=[]
for f in frames:
    f=np.asarray(f); px=f[f.shape[0]//2, f.shape[1]//2]
    vals.append(int(px[0])+256*int(px[1]))
print(len(frames), vals[:12], vals[95:])
print("in order:", vals==list(range(1,len(vals)+1)))
t=time.time()
try:
    create_gantt_chart_video(inst, video_path=os.path.join(tmp,"a.mp4"), plot_function=plot_function, schedule_history=h.history[:12])
    print("video ok", time.time()-t, os.path.getsize(os.path.join(tmp,"a.mp4")))
except Exception as e: print("video fail", type(e), e)
import shutil; shutil.rmtree(tmp)
