import random, sys
from gen import rand_instance, desc
from model import Model
from job_shop_lib.dispatching import *
Q=['current_time','available_operations','raw_ready_operations','unscheduled_operations','scheduled_operations','available_machines','available_jobs','completed_operations','uncompleted_operations','ongoing_operations']
def norm(name,v):
    if name=='current_time': return v
    if name in('available_machines','available_jobs'): return sorted(v)
    if name=='completed_operations': return sorted(o.operation_id for o in v)
    if name=='ongoing_operations': return sorted(o.operation.operation_id for o in v)
    return [o.operation_id for o in v]
fails={}
for seed in range(1500):
    rng=random.Random(seed)
    inst=rand_instance(rng)
    pos=all(op.duration>0 for j in inst.jobs for op in j)
    f=rng.choice([None,filter_dominated_operations,filter_non_idle_machines]) if pos else None
    d=Dispatcher(inst,f); twin=Dispatcher(inst,f)
    while True:
        # on twin: each query alone on a pristine state (fresh cache) -> reference
        ref={}
        for q in Q:
            twin._cache={}  # exploration only
            ref[q]=norm(q,getattr(twin,q)())
        qs=[rng.choice(Q) for _ in range(rng.randint(1,12))]
        for q in qs:
            got=norm(q,getattr(d,q)())
            if got!=ref[q]: fails.setdefault((q,),[]).append((seed,tuple(qs)))
        if d.schedule.is_complete(): break
        op=rng.choice(d.raw_ready_operations()); m=rng.choice(op.machines); d.dispatch(op,m); twin.dispatch(op,m)
for k,v in fails.items(): print(k,len(v),v[:2])
print('done')
