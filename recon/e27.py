import random, sys
from gen import rand_instance
from job_shop_lib.dispatching import Dispatcher, filter_dominated_operations
from job_shop_lib.dispatching.rules import observer_based_most_work_remaining_rule as obr, most_work_remaining_rule as direct
bad=0; leak=[]
for seed in range(400):
    rng=random.Random(seed)
    A=rand_instance(rng, zero=False); B=A if rng.random()<0.5 else rand_instance(rng, zero=False)
    dA=Dispatcher(A, filter_dominated_operations); dB=Dispatcher(B)
    tr={id(dA):[], id(dB):[]}
    ds=[dA,dB]
    while any(not d.schedule.is_complete() for d in ds):
        d=rng.choice([x for x in ds if not x.schedule.is_complete()])
        op=obr(d)
        if op is not direct(d): bad+=1
        tr[id(d)].append(op.operation_id); d.dispatch(op, op.machines[0])
    # solo
    for d0,inst,f in ((dA,A,filter_dominated_operations),(dB,B,None)):
        d=Dispatcher(inst,f); t=[]
        while not d.schedule.is_complete():
            op=obr(d); t.append(op.operation_id); d.dispatch(op, op.machines[0])
        if t!=tr[id(d0)]: bad+=1
    leak.append((len(dA.subscribers), len(dB.subscribers)))
print("bad", bad, "max subscribers (leak from switching):", max(max(x) for x in leak))
