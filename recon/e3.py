import random, sys, traceback, itertools
import numpy as np
from gen import rand_instance, desc
from model import Model
from job_shop_lib.dispatching import *
from job_shop_lib.dispatching import Dispatcher
from job_shop_lib.dispatching.feature_observers import *
FT=FeatureType
FILTERS={None:None,'dominated_operations':filter_dominated_operations,'non_immediate_machines':filter_non_immediate_machines,'non_idle_machines':filter_non_idle_machines,'non_immediate_operations':filter_non_immediate_operations}
fails={}
def fail(k,seed):
    fails.setdefault(k,[]).append(seed)
N=int(sys.argv[1]) if len(sys.argv)>1 else 2000
for seed in range(N):
    rng=random.Random(seed)
    inst=rand_instance(rng)
    fname=rng.choice(list(FILTERS))
    flex=inst.is_flexible
    pos=all(op.duration>0 for j in inst.jobs for op in j)
    if fname and not pos: fname=None
    d=Dispatcher(inst, ready_operations_filter=FILTERS[fname])
    M=Model(desc(inst), [fname] if fname else [])
    obs={}
    for T in FeatureObserverType:
        try:
            obs[T]=feature_observer_factory(T, dispatcher=d)
        except Exception as e:
            fail(('ctor',T.value,type(e).__name__,str(e)[:50], 'flex' if flex else 'nonflex'),seed)
    opid={(op.job_id,op.position_in_job):op.operation_id for j in inst.jobs for op in j}
    def check(step):
        now=M.now(); av=M.available(); est=M.est_all()
        uns=[(j,p) for j in range(M.nj) for p in range(M.nxt[j],len(M.jobs[j]))]
        jobs_left=[j for j in range(M.nj) if M.nxt[j]<len(M.jobs[j])]
        mach_left=[m for m in range(M.nm) if any(m in M.jobs[j][p][0] for j,p in uns)]
        tag='flex' if flex else 'nonflex'
        for T,o in obs.items():
            f=o.features
            try:
                if T==FeatureObserverType.IS_READY:
                    for (j,p) in uns:
                        if f[FT.OPERATIONS][opid[j,p],0]!=((j,p) in av): fail((T.value,'ops',tag),seed)
                    for j in jobs_left:
                        if f[FT.JOBS][j,0]!=any(jj==j for jj,_ in av): fail((T.value,'jobs',tag),seed)
                    for m in mach_left:
                        if f[FT.MACHINES][m,0]!=any(m in M.jobs[j][p][0] for j,p in av): fail((T.value,'mach',tag),seed)
                elif T==FeatureObserverType.EARLIEST_START_TIME:
                    for (j,p) in uns:
                        if f[FT.OPERATIONS][opid[j,p],0]!=est[j,p]-now: fail((T.value,'ops',tag, 'recirc' if any(len(set(m for ms,_ in job for m in ms))<sum(len(ms) for ms,_ in job) for job in M.jobs) else 'norecirc'),seed)
                    for j in jobs_left:
                        if f[FT.JOBS][j,0]!=est[j,M.nxt[j]]-now: fail((T.value,'jobs',tag),seed)
                    for m in mach_left:
                        v=min(est[j,p] for j,p in uns if m in M.jobs[j][p][0])-now
                        if f[FT.MACHINES][m,0]!=v: fail((T.value,'mach',tag),seed)
                elif T==FeatureObserverType.DURATION:
                    for (j,p) in uns:
                        if f[FT.OPERATIONS][opid[j,p],0]!=M.jobs[j][p][1]: fail((T.value,'ops',tag),seed)
                    for j in jobs_left:
                        if f[FT.JOBS][j,0]!=sum(M.jobs[j][p][1] for p in range(M.nxt[j],len(M.jobs[j]))): fail((T.value,'jobs',tag),seed)
                    for m in mach_left:
                        v=sum(M.jobs[j][p][1] for j,p in uns if m in M.jobs[j][p][0])
                        if f[FT.MACHINES][m,0]!=v: fail((T.value,'mach',tag),seed)
                elif T==FeatureObserverType.IS_SCHEDULED:
                    for j in range(M.nj):
                        for p in range(len(M.jobs[j])):
                            if f[FT.OPERATIONS][opid[j,p],0]!=(p<M.nxt[j]): fail((T.value,'ops',tag),seed)
                    ong=[h for h in M.hist if h[4]>now]
                    for j in range(M.nj):
                        if f[FT.JOBS][j,0]!=sum(1 for h in ong if h[0]==j): fail((T.value,'jobs',tag),seed)
                    for m in range(M.nm):
                        if f[FT.MACHINES][m,0]!=sum(1 for h in ong if h[2]==m): fail((T.value,'mach',tag),seed)
                elif T==FeatureObserverType.POSITION_IN_JOB:
                    for (j,p) in uns:
                        if f[FT.OPERATIONS][opid[j,p],0]!=p-M.nxt[j]: fail((T.value,'ops',tag),seed)
                elif T==FeatureObserverType.REMAINING_OPERATIONS:
                    for j in range(M.nj):
                        if f[FT.JOBS][j,0]!=len(M.jobs[j])-M.nxt[j]: fail((T.value,'jobs',tag),seed)
                    for m in range(M.nm):
                        v=sum(1 for j,p in uns if m in M.jobs[j][p][0])
                        if f[FT.MACHINES][m,0]!=v: fail((T.value,'mach',tag),seed)
                elif T==FeatureObserverType.IS_COMPLETED:
                    comp={(h[0],h[1]) for h in M.hist if h[4]<=now}
                    for j in range(M.nj):
                        for p in range(len(M.jobs[j])):
                            if f[FT.OPERATIONS][opid[j,p],0]!=((j,p) in comp): fail((T.value,'ops',tag),seed)
                    for j in range(M.nj):
                        if f[FT.JOBS][j,0]!=(M.nxt[j]==len(M.jobs[j])): fail((T.value,'jobs(all-sched)',tag),seed)
                    for m in range(M.nm):
                        if f[FT.MACHINES][m,0]!=(m not in mach_left): fail((T.value,'mach(all-sched)',tag),seed)
            except Exception as e:
                fail(('chk-exc',T.value,type(e).__name__,str(e)[:50]),seed)
    try:
        check(0)
        k=0
        while not d.schedule.is_complete():
            raw=d.raw_ready_operations(); av=d.available_operations()
            op=rng.choice(raw if rng.random()<0.5 else av); m=rng.choice(op.machines)
            d.dispatch(op,m); M.dispatch(op.job_id,op.position_in_job,m); k+=1
            check(k)
    except Exception as e:
        fail(('exc',type(e).__name__,str(e)[:80]),seed)
for k,v in sorted(fails.items(), key=str): print(k, len(set(v)), sorted(set(v))[:6])
