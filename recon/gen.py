import random
from job_shop_lib import JobShopInstance, Operation

def rand_instance(rng, max_jobs=4, max_machines=4, max_ops=4, flexible=None, zero=None, regular=None):
    nj = rng.randint(1, max_jobs); nm = rng.randint(1, max_machines)
    if flexible is None: flexible = rng.random() < 0.4
    if zero is None: zero = rng.random() < 0.3
    if regular is None: regular = rng.random() < 0.5
    n_ops_reg = rng.randint(1, max_ops)
    jobs = []
    for j in range(nj):
        n = n_ops_reg if regular else rng.randint(1, max_ops)
        job = []
        for p in range(n):
            if flexible and rng.random() < 0.6 and nm > 1:
                k = rng.randint(2, nm)
                ms = rng.sample(range(nm), k)
            else:
                ms = rng.randrange(nm)
            lo = 0 if zero else 1
            d = rng.randint(lo, 6)
            job.append(Operation(ms, d))
        jobs.append(job)
    return JobShopInstance(jobs, name="r")

def desc(inst):
    return [[(op.machines, op.duration) for op in job] for job in inst.jobs]
