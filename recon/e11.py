import random, sys, itertools
from gen import rand_instance, desc
from model import Model
from job_shop_lib import JobShopInstance, Operation, Schedule
from job_shop_lib.dispatching import *
from job_shop_lib.exceptions import ValidationError
import networkx as nx
fails={}
def fail(k,seed): fails.setdefault(k,[]).append(seed)
NAMES=['dominated_operations','non_immediate_machines','non_idle_machines','non_immediate_operations']
N=int(sys.argv[1])
for seed in range(N):
    rng=random.Random(seed)
    inst=rand_instance(rng)
    jobs=desc(inst)
    names=[rng.choice(NAMES) for _ in range(rng.randint(1,3))]
    comp=create_composite_operation_filter(names)
    d=Dispatcher(inst); M=Model(jobs, names)
    try:
        while not d.schedule.is_complete():
            raw=d.raw_ready_operations()
            # sub-list
            sub=[o for o in raw if rng.random()<0.7] or raw
            got=comp(d, list(sub))
            ids=[(o.job_id,o.position_in_job) for o in got]
            subids=[(o.job_id,o.position_in_job) for o in sub]
            if not got: fail(('empty',tuple(names)),seed)
            it=iter(subids)
            if not all(x in it for x in ids) or len(set(ids))!=len(ids): fail(('not sublist',tuple(names)),seed)
            # exact
            ops=subids
            for nme in names:
                r=getattr(M,'f_'+nme.replace('dominated_operations','dominated'))(ops)
                if r is None: ops=None; break
                ops=r
            if ops is not None and ops!=ids: fail(('criterion',tuple(names), 'zero' if any(dd==0 for j in jobs for _,dd in j) else 'pos'),seed)
            op=rng.choice(raw); m=rng.choice(op.machines); d.dispatch(op,m); M.dispatch(op.job_id,op.position_in_job,m)
    except Exception as e:
        fail(('exc',type(e).__name__,str(e)[:70]),seed)
    # C14 job sequences on nonflex
    if not inst.is_flexible:
        s=d.schedule
        seqs=[[so.job_id for so in ms] for ms in s.schedule]
        try:
            s2=Schedule.from_job_sequences(inst, seqs)
            same=[[ (so.operation.operation_id,so.start_time,so.machine_id) for so in ms] for ms in s2.schedule]==[[ (so.operation.operation_id,so.start_time,so.machine_id) for so in ms] for ms in s.schedule]
            if not same: fail(('from_job_sequences differs',),seed)
        except Exception as e:
            fail(('fjs exc',type(e).__name__,str(e)[:70]),seed)
        # random permutations
        perm=[list(x) for x in seqs]
        for p in perm: rng.shuffle(p)
        # acyclicity: build graph over ops: job edges + machine order edges
        G=nx.DiGraph()
        cnt={}
        for m,p in enumerate(perm):
            prev=None
            used={}
            for j in p:
                # k-th occurrence of j on machine m -> k-th op of job j that uses m
                k=used.get(j,0); used[j]=k+1
                opsm=[op for op in inst.jobs[j] if op.machine_id==m]
                node=opsm[k].operation_id
                G.add_node(node)
                if prev is not None: G.add_edge(prev,node)
                prev=node
        for job in inst.jobs:
            for a,b in zip(job,job[1:]): G.add_edge(a.operation_id,b.operation_id)
        acyc=nx.is_directed_acyclic_graph(G)
        try:
            s3=Schedule.from_job_sequences(inst, perm)
            if not acyc: fail(('accepted cyclic',),seed)
        except ValidationError:
            if acyc: fail(('rejected acyclic',),seed)
        except Exception as e:
            fail(('perm exc',type(e).__name__,str(e)[:70]),seed)
for k,v in sorted(fails.items(), key=str): print(k, len(set(v)), sorted(set(v))[:6])
print('done')
