import random, sys, json, tempfile, os
import numpy as np
from gen import rand_instance, desc
from job_shop_lib import JobShopInstance, Operation, Schedule
from job_shop_lib.dispatching import Dispatcher
fails={}
def fail(k,seed): fails.setdefault(k,[]).append(seed)
tmp=tempfile.mkdtemp()
for seed in range(int(sys.argv[1])):
    rng=random.Random(seed)
    inst=rand_instance(rng)
    inst.name=f"inst{seed}"; inst.metadata={"k":seed,"lb":[1,2]}
    jobs=desc(inst)
    try:
        d=json.loads(json.dumps(inst.to_dict()))
        i2=JobShopInstance.from_matrices(**d)
        if desc(i2)!=jobs or i2.name!=inst.name or i2.metadata!=inst.metadata: fail(('dict roundtrip',),seed)
    except Exception as e: fail(('dict exc',type(e).__name__,str(e)[:60]),seed)
    # views
    try:
        ids=[op.operation_id for j in inst.jobs for op in j]
        if ids!=list(range(len(ids))): fail(('ids',),seed)
        if inst.num_operations!=len(ids) or inst.num_jobs!=len(jobs) or inst.num_machines!=max(m for j in jobs for ms,_ in j for m in ms)+1: fail(('counts',),seed)
        if inst.durations_matrix!=[[d for _,d in j] for j in jobs]: fail(('dm',),seed)
        flex=any(len(ms)>1 for j in jobs for ms,_ in j)
        if inst.is_flexible!=flex: fail(('flex',),seed)
        mm=[[ms if flex else ms[0] for ms,_ in j] for j in jobs]
        if inst.machines_matrix!=mm: fail(('mm',),seed)
        A=inst.durations_matrix_array; L=max(len(j) for j in jobs)
        if A.shape!=(len(jobs),L): fail(('dma shape',),seed)
        for a,j in enumerate(jobs):
            for b in range(L):
                if b<len(j):
                    if A[a,b]!=j[b][1]: fail(('dma val',),seed)
                elif not np.isnan(A[a,b]): fail(('dma nan',),seed)
        B=inst.machines_matrix_array
        K=max(len(ms) for j in jobs for ms,_ in j)
        exp_shape=(len(jobs),L,K) if flex else (len(jobs),L)
        if B.shape!=exp_shape: fail(('mma shape',flex),seed)
        obm=[[ (op.job_id,op.position_in_job) for op in ops] for ops in inst.operations_by_machine]
        exp=[[ (a,b) for a,j in enumerate(jobs) for b,(ms,_) in enumerate(j) if m in ms] for m in range(inst.num_machines)]
        if obm!=exp: fail(('obm',),seed)
        if inst.machine_loads!=[sum(d for j in jobs for ms,d in j if m in ms) for m in range(inst.num_machines)]: fail(('loads',),seed)
        if inst.job_durations!=[sum(d for _,d in j) for j in jobs] or inst.total_duration!=sum(d for j in jobs for _,d in j): fail(('jobdur',),seed)
        if inst.max_duration!=max(d for j in jobs for _,d in j) or inst.max_duration_per_job!=[max(d for _,d in j) for j in jobs]: fail(('maxd',),seed)
        if inst.max_duration_per_machine!=[max([d for j in jobs for ms,d in j if m in ms],default=0) for m in range(inst.num_machines)]: fail(('maxdm',),seed)
    except Exception as e: fail(('views exc',type(e).__name__,str(e)[:60]),seed)
    if not flex:
        p=os.path.join(tmp,f"inst{seed}.txt")
        with open(p,"w") as f:
            f.write("# comment\n%d %d\n"%(inst.num_jobs,inst.num_machines))
            for j in jobs: f.write(" ".join(f"{ms[0]} {d}" for ms,d in j)+"\n")
        try:
            i3=JobShopInstance.from_taillard_file(p, k=seed)
            if desc(i3)!=jobs or i3.name!=f"inst{seed}" or i3.metadata!={"k":seed}: fail(('taillard',),seed)
        except Exception as e: fail(('taillard exc',type(e).__name__,str(e)[:60]),seed)
        dd=Dispatcher(inst)
        while not dd.schedule.is_complete():
            op=rng.choice(dd.raw_ready_operations()); dd.dispatch(op)
        dd.schedule.metadata={"a":1}
        sd=json.loads(json.dumps(dd.schedule.to_dict()))
        s2=Schedule.from_dict(**sd)
        a=[[ (o.operation.operation_id,o.start_time,o.machine_id) for o in ms] for ms in dd.schedule.schedule]
        b=[[ (o.operation.operation_id,o.start_time,o.machine_id) for o in ms] for ms in s2.schedule]
        if a!=b or s2.metadata!={"a":1}: fail(('sched dict',),seed)
import shutil; shutil.rmtree(tmp)
for k,v in sorted(fails.items(), key=str): print(k, len(set(v)), sorted(set(v))[:6])
print('done')
