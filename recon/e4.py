import random, sys
from gen import rand_instance, desc
from model import Model
from job_shop_lib.dispatching import Dispatcher
from job_shop_lib.dispatching.feature_observers import *
FT=FeatureType
seed=int(sys.argv[1]); which=sys.argv[2]
rng=random.Random(seed)
inst=rand_instance(rng)
print(desc(inst))
