import time, random
import matplotlib; matplotlib.use("Agg")
import matplotlib.pyplot as plt
from matplotlib.colors import to_rgba
from job_shop_lib import JobShopInstance, Operation
from job_shop_lib.dispatching import Dispatcher
from job_shop_lib.visualization import plot_gantt_chart
rng=random.Random(1)
inst=JobShopInstance([[Operation(rng.randrange(3), rng.randint(0,5)) for _ in range(4)] for _ in range(4)], name="x")
d=Dispatcher(inst)
while not d.schedule.is_complete():
    op=rng.choice(d.raw_ready_operations()); d.dispatch(op)
t=time.time()
fig,ax=plot_gantt_chart(d.schedule)
print("plot time", time.time()-t)
bars=[]
for coll in ax.collections:
    for path in coll.get_paths():
        v=path.vertices
        x0,x1=v[:,0].min(),v[:,0].max(); y0,y1=v[:,1].min(),v[:,1].max()
        bars.append((x0,x1,y0,y1,tuple(coll.get_facecolor()[0])))
print(len(bars), inst.num_operations, bars[:3])
leg=ax.get_legend()
print([ (h.get_label(), h.get_facecolor()) for h in leg.legend_handles][:2] if hasattr(leg,'legend_handles') else 'n/a')
print(ax.get_xlim(), ax.get_xticks()[-1], d.schedule.makespan())
plt.close(fig)
t=time.time()
for i in range(10):
    fig,ax=plot_gantt_chart(d.schedule); fig.savefig(f"/tmp/explore/f{i}.png", bbox_inches="tight"); plt.close(fig)
print("per frame real", (time.time()-t)/10)
