from job_shop_lib import JobShopInstance, Operation, Schedule, ScheduledOperation
from job_shop_lib.dispatching import Dispatcher
# C15
a=Operation(0,1); b=Operation(1,5)
print("Operation eq vacuous:", a==b)
i1=JobShopInstance([[Operation(0,1)],[Operation(1,2)]]); i2=JobShopInstance([[Operation(1,9)],[Operation(0,7)]])
print("Instance eq differing content:", i1==i2)
# C05 aliasing
inst=JobShopInstance([[Operation(0,5),Operation(1,2)],[Operation(1,3),Operation(0,1)]])
d=Dispatcher(inst)
d.dispatch(inst.jobs[0][0])
print("unsched before:", d.unscheduled_operations())
print("uncompleted:", d.uncompleted_operations())
print("unsched after:", d.unscheduled_operations())
# C04 elapsed
from job_shop_lib.dispatching.rules import DispatchingRuleSolver
s=DispatchingRuleSolver()(inst)
print(s.metadata)
