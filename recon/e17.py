import random, sys
from gen import rand_instance, desc
from job_shop_lib.dispatching import *
from job_shop_lib.dispatching.rules import *
cnt={}
for seed in range(1500):
    rng=random.Random(seed)
    inst=rand_instance(rng)
    d=Dispatcher(inst)
    observer_based_most_work_remaining_rule(d)
    while not d.schedule.is_complete():
        o1=most_work_remaining_rule(d); o2=observer_based_most_work_remaining_rule(d)
        if o1 is not o2:
            cnt.setdefault('diff',[]).append(seed); break
        op=rng.choice(d.raw_ready_operations()); d.dispatch(op, rng.choice(op.machines))
print({k:(len(v),v[:8]) for k,v in cnt.items()})
