import random, sys, copy
import numpy as np
from gen import rand_instance, desc
from job_shop_lib import JobShopInstance, Operation
from job_shop_lib.dispatching import *
from job_shop_lib.dispatching.feature_observers import *
from job_shop_lib.graphs import *
from job_shop_lib.graphs.graph_updaters import ResidualGraphUpdater
from job_shop_lib.reinforcement_learning import *
fails={}
def fail(k,seed): fails.setdefault(k,[]).append(seed)
def snap(d):
    s={'sched':[[(o.operation.operation_id,o.start_time,o.machine_id) for o in ms] for ms in d.schedule.schedule],
       'mna':list(d.machine_next_available_time),'jni':list(d.job_next_operation_index),'jna':list(d.job_next_available_time),
       'subs':[id(x) for x in d.subscribers]}
    for i,o in enumerate(d.subscribers):
        if isinstance(o,FeatureObserver): s[f'f{i}']={k.value:v.copy().tolist() for k,v in o.features.items()}
        if isinstance(o,RewardObserver): s[f'r{i}']=list(o.rewards)
        if isinstance(o,HistoryObserver): s[f'h{i}']=[id(x) for x in o.history]
        if isinstance(o,UnscheduledOperationsObserver): s[f'u{i}']=[[op.operation_id for op in dq] for dq in o.unscheduled_operations_per_job]
        if isinstance(o,ResidualGraphUpdater): s[f'g{i}']=(list(o.job_shop_graph.removed_nodes), sorted(o.job_shop_graph.graph.edges()))
    return s
for seed in range(600):
    rng=random.Random(seed)
    inst=rand_instance(rng, zero=False)
    g=build_agent_task_graph(inst)
    types=[t for t in FeatureObserverType if t!=FeatureObserverType.EARLIEST_START_TIME]
    env=SingleJobShopGraphEnv(g,[DispatcherObserverConfig(t) for t in types], reward_function_config=DispatcherObserverConfig(IdleTimeReward))
    env.reset(); d=env.dispatcher
    while True:
        # inject invalid requests
        before=snap(d)
        kind=rng.choice(['notready','badmachine','oor','finished_job','minus1flex'])
        try:
            if kind=='notready':
                ops=[op for j in inst.jobs for op in j if op.position_in_job!=d.job_next_operation_index[op.job_id]]
                if ops: 
                    op=rng.choice(ops); d.dispatch(op, rng.choice(op.machines)); fail(('no raise',kind),seed)
            elif kind=='badmachine':
                raw=d.raw_ready_operations()
                cands=[(op,m) for op in raw for m in range(inst.num_machines) if m not in op.machines]
                if cands: op,m=rng.choice(cands); d.dispatch(op,m); fail(('no raise',kind),seed)
            elif kind=='oor':
                raw=d.raw_ready_operations()
                if raw: op=rng.choice(raw); d.dispatch(op, rng.choice([inst.num_machines, inst.num_machines+3, -1-inst.num_machines-1, -1 if (inst.num_machines-1) not in op.machines else inst.num_machines])); fail(('no raise',kind),seed)
            elif kind=='finished_job':
                fin=[j for j in range(inst.num_jobs) if d.job_next_operation_index[j]==len(inst.jobs[j])]
                if fin: env.step((rng.choice(fin), 0)); fail(('no raise',kind),seed)
            elif kind=='minus1flex':
                raw=[op for op in d.raw_ready_operations() if len(op.machines)>1]
                if raw: env.step((rng.choice(raw).job_id,-1)); fail(('no raise',kind),seed)
        except Exception as e:
            pass
        if snap(d)!=before: fail(('state changed',kind),seed)
        if d.schedule.is_complete(): break
        op=rng.choice(d.raw_ready_operations()); env.step((op.job_id, rng.choice(op.machines)))
for k,v in fails.items(): print(k,len(v),v[:5])
print('done')
