import random, sys, copy
import numpy as np
from gen import rand_instance, desc
from job_shop_lib import JobShopInstance, Operation
from job_shop_lib.dispatching import DispatcherObserverConfig, filter_dominated_operations
from job_shop_lib.dispatching.feature_observers import FeatureObserverType, FeatureType
from job_shop_lib.graphs import build_disjunctive_graph, build_agent_task_graph, build_complete_agent_task_graph, build_agent_task_graph_with_jobs
from job_shop_lib.reinforcement_learning import SingleJobShopGraphEnv, MakespanReward, IdleTimeReward
fails={}
def fail(k,seed): fails.setdefault(k,[]).append(seed)
BUILDERS=[build_disjunctive_graph, build_agent_task_graph, build_complete_agent_task_graph, build_agent_task_graph_with_jobs]
def mk(jobs, builder, types, filt, reward):
    inst=JobShopInstance([[Operation(list(ms),d) for ms,d in job] for job in jobs])
    g=builder(inst)
    cfgs=[DispatcherObserverConfig(t) for t in types]
    return SingleJobShopGraphEnv(g, cfgs, reward_function_config=DispatcherObserverConfig(reward), ready_operations_filter=filt)
def obs_eq(a,b):
    if a.keys()!=b.keys(): return False
    return all(np.array_equal(a[k],b[k], equal_nan=True) for k in a)
N=int(sys.argv[1])
for seed in range(N):
    rng=random.Random(seed)
    inst=rand_instance(rng, zero=False)
    jobs=desc(inst)
    builder=rng.choice(BUILDERS)
    types=[t for t in FeatureObserverType if t!=FeatureObserverType.EARLIEST_START_TIME and rng.random()<0.5] or [FeatureObserverType.IS_READY]
    filt=rng.choice([None, filter_dominated_operations])
    reward=rng.choice([MakespanReward, IdleTimeReward])
    try:
        env=mk(jobs,builder,types,filt,reward)
    except Exception as e:
        fail(('ctor',type(e).__name__,str(e)[:60]),seed); continue
    try:
        # episode 1: partial random
        o0,_=env.reset()
        for k,v in o0.items():
            pass
        if not env.observation_space.contains(o0): fail(('obs0 not in space', builder.__name__),seed)
        n1=rng.randint(0, inst.num_operations)
        for _ in range(n1):
            av=env.dispatcher.available_operations(); op=rng.choice(av); m=rng.choice(op.machines)
            if not env.action_space.contains(np.array([op.job_id,m])): fail(('legal action not in space',),seed)
            env.step((op.job_id,m))
        # episode 2 vs fresh
        oA,_=env.reset(); fresh=mk(jobs,builder,types,filt,reward); oB,_=fresh.reset()
        if not obs_eq(oA,oB): fail(('reset-obs differs', builder.__name__, tuple(t.value for t in types)),seed)
        done=False
        while not done:
            av=fresh.dispatcher.available_operations(); op=rng.choice(av); m=rng.choice(op.machines)
            ra=env.step((op.job_id,m)); rb=fresh.step((op.job_id,m))
            if not obs_eq(ra[0],rb[0]):
                diff=[k for k in ra[0] if not np.array_equal(ra[0][k],rb[0][k])]
                fail(('ep2-obs differs', builder.__name__, tuple(diff)),seed); break
            if ra[1]!=rb[1]: fail(('ep2-reward differs',),seed)
            if ra[2]!=rb[2]: fail(('ep2-done differs',),seed)
            if not fresh.observation_space.contains(rb[0]): fail(('obs not in space', builder.__name__),seed)
            done=rb[2]
        if done and not all(fresh.job_shop_graph.removed_nodes):
            fail(('fresh: not all removed at end', builder.__name__, 'unused-machine' if any(not ops for ops in inst.operations_by_machine) else 'allused'),seed)
    except Exception as e:
        import traceback
        fail(('exc',type(e).__name__,str(e)[:80]),seed)
for k,v in sorted(fails.items(), key=str): print(k, len(set(v)), sorted(set(v))[:6])
