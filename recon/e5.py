import random, sys, itertools
from model import Model
from job_shop_lib import JobShopInstance, Operation
from job_shop_lib.dispatching import Dispatcher
from job_shop_lib.dispatching.feature_observers import *
FT=FeatureType
jobs=[[([1], 4), ([0], 6)], [([0], 3), ([1], 4)]]
# enumerate all histories
def run(order):
    inst=JobShopInstance([[Operation(ms,d) for ms,d in job] for job in jobs])
    d=Dispatcher(inst); M=Model(jobs)
    o=EarliestStartTimeObserver(d)
    for j in order:
        op=d.next_operation(j); d.dispatch(op, op.machines[0]); M.dispatch(j,op.position_in_job,op.machines[0])
        est=M.est_all(); now=M.now()
        for (jj,p),v in est.items():
            got=o.features[FT.OPERATIONS][inst.jobs[jj][p].operation_id,0]
            if got!=v-now:
                print("order",order,"after",j,"op",(jj,p),"got",got,"want",v-now,"now",now, "matrix", o.earliest_start_times.tolist()); return
for order in set(itertools.permutations([0,0,1,1])):
    run(order)
