import random
import numpy as np
from gen import rand_instance
from job_shop_lib.dispatching import Dispatcher, UnscheduledOperationsObserver
from job_shop_lib.dispatching.feature_observers import *
def run(order_first):
    bad=0
    for seed in range(300):
        rng=random.Random(seed); inst=rand_instance(rng, zero=False, flexible=False)
        def build():
            d=Dispatcher(inst)
            if order_first:
                UnscheduledOperationsObserver(d); r=RemainingOperationsObserver(d); c=IsCompletedObserver(d)
            else:
                c=IsCompletedObserver(d); r=d.create_or_get_observer(RemainingOperationsObserver)
            return d,r,c
        d,r,c=build()
        for _ in range(rng.randint(1,inst.num_operations)):
            op=rng.choice(d.raw_ready_operations()); d.dispatch(op)
        d.reset()
        d2,r2,c2=build()
        same=all(np.array_equal(r.features[k],r2.features[k]) for k in r.features) and np.array_equal(c.remaining_ops_per_job,c2.remaining_ops_per_job) and np.array_equal(c.remaining_ops_per_machine,c2.remaining_ops_per_machine)
        bad+= (not same)
    return bad
print("deps first:", run(True), " dependants first:", run(False))
