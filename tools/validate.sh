#!/bin/bash
python3-vt - <<'PY'
import json, jsonschema, glob
m=json.load(open('/verif/MANIFEST.json')); jsonschema.validate(m,json.load(open('/root/.vp/MANIFEST.schema.json'))); print("manifest ok", len(m["checks"]))
s=json.load(open('/root/.vp/EVIDENCE.schema.json'))
for f in sorted(glob.glob('/verif/evidence/*.json')):
    try: jsonschema.validate(json.load(open(f)),s)
    except Exception as e: print("BAD", f, str(e)[:200])
print("evidence checked")
PY
