#!/bin/bash
# usage: try_mutant.sh <patch-file|-> <Cxx> [extra run.py args]   (patch read from stdin when '-')
# Applies the patch to a scratch copy of /repo's HEAD outside /repo and /verif, runs the quick check, removes the copy.
set -u
P="$1"; PID="$2"; shift 2
D=$(mktemp -d /tmp/jsl-mut-XXXXXX)
git -C /repo archive HEAD | tar -x -C "$D"
if [ "$P" = "-" ]; then (cd "$D" && patch -p1 -s) ; else (cd "$D" && patch -p1 -s < "$P"); fi || { echo "PATCH FAILED"; rm -rf "$D"; exit 3; }
JSL_REPO="$D" /venv/bin/python /verif/run.py check "$PID" "$@" 2>&1 | grep -v conda | grep -E "VIOLATION|violated|HARNESS|exit=|KNOWN" | head -12
rm -rf "$D"
