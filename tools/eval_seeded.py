#!/venv/bin/python
"""Evaluates seeded changes under /verif/seeded/<id>/ against the checks.

For each id: scratch copy of /repo HEAD outside /repo and /verif; the demo must
pass on the clean copy; the patch must apply; the existing test suite must pass
with it; the demo must fail with it; then the owning property's quick check
(and with --all every claimed property's quick check) is run against the copy
(JSL_REPO) and the verdict recorded in seeded/<id>/meta.json and
seeded/RESULTS.md.  The copy is removed afterwards.

usage: eval_seeded.py [--all] [--no-tests] [id ...]
"""

import glob
import json
import os
import re
import shutil
import subprocess
import sys
import tempfile

VERIF = os.path.dirname(os.path.dirname(os.path.abspath(__file__)))
N_DIV = int(os.environ.get("EVAL_N_DIV", "1"))  # regression passes over all ids use a fraction of the quick run count
PY = "/venv/bin/python"


def sh(cmd, env=None, cwd=None, timeout=1800):
    e = dict(os.environ)
    e.update(env or {})
    p = subprocess.run(cmd, shell=True, capture_output=True, text=True, env=e, cwd=cwd, timeout=timeout)
    return p.returncode, p.stdout + p.stderr


def claimed():
    with open(os.path.join(VERIF, "MANIFEST.json")) as f:
        return [c["property_id"] for c in json.load(f)["checks"]]


def evaluate(sid, all_props, run_tests):
    d = os.path.join(VERIF, "seeded", sid)
    meta_path = os.path.join(d, "meta.json")
    meta = json.load(open(meta_path))
    prop = meta["property"]
    demo = os.path.join(d, meta.get("demo", "demo.py"))
    tmp = tempfile.mkdtemp(prefix="jsl-seeded-")
    res = {}
    try:
        sh(f"git -C /repo archive HEAD | tar -x -C {tmp}")
        env = {"PYTHONPATH": tmp, "MPLBACKEND": "Agg"}
        rc, out = sh(f"{PY} {demo}", env=env, cwd=tmp, timeout=600)
        res["demo_passes_without_change"] = rc == 0
        rc, out = sh(f"patch -p1 -s < {os.path.join(d, 'patch.diff')}", cwd=tmp)
        res["patch_applies"] = rc == 0
        if rc != 0:
            res["error"] = out[-500:]
            return res
        if run_tests:
            rc, out = sh(f"{PY} -m pytest -q -p no:cacheprovider tests 2>&1 | tail -3", env=env, cwd=tmp, timeout=1800)
            m = re.search(r"(\d+) passed", out)
            res["tests_pass_with_change"] = bool(m) and "failed" not in out and "error" not in out.lower().replace("errors=0", "")
            res["tests_summary"] = out.strip().splitlines()[-1] if out.strip() else ""
        rc, out = sh(f"{PY} {demo}", env=env, cwd=tmp, timeout=600)
        res["demo_fails_with_change"] = rc != 0
        props = claimed() if all_props else [prop]
        det = {}
        for p in props:
            if p not in claimed():
                det[p] = "not claimed"
                continue
            extra = ""
            if N_DIV > 1:
                sys.path.insert(0, VERIF)
                from sim import runner as _r

                extra = f" --n {max(200, _r.load_prop(p).N['quick'] // N_DIV)}"
            rc, out = sh(f"{PY} {VERIF}/run.py check {p} --tier quick{extra}", env={"JSL_REPO": tmp}, cwd=VERIF, timeout=1800)
            oracles = re.findall(r"violated oracle (\w+)", out)
            det[p] = {"runs": extra.strip() or "full quick", "exit": rc, "violation": "VIOLATION property=" in out, "oracles": sorted(set(oracles)), "harness_error": "HARNESS-ERROR" in out}
        res["checks"] = det
        res["detected_by_owner"] = isinstance(det.get(prop), dict) and det[prop]["violation"]
        res["detected_by"] = sorted(p for p, v in det.items() if isinstance(v, dict) and v["violation"])
    finally:
        shutil.rmtree(tmp, ignore_errors=True)
        # evidence files were rewritten by runs against the scratch copy: they are restored by the caller
    if not run_tests:
        # keep what an earlier full evaluation established about the test suite
        for k in ("tests_pass_with_change", "tests_summary"):
            if k in meta.get("verification", {}):
                res.setdefault(k, meta["verification"][k])
    meta["verification"] = res
    with open(meta_path, "w") as f:
        json.dump(meta, f, indent=1)
    return res


def main():
    args = [a for a in sys.argv[1:] if not a.startswith("--")]
    all_props = "--all" in sys.argv
    run_tests = "--no-tests" not in sys.argv
    ids = args or sorted(os.path.basename(p) for p in glob.glob(os.path.join(VERIF, "seeded", "*")) if os.path.isdir(p))
    # keep the committed evidence: runs against scratch copies must not replace it
    ev_backup = tempfile.mkdtemp(prefix="jsl-ev-")
    shutil.copytree(os.path.join(VERIF, "evidence"), os.path.join(ev_backup, "evidence"))
    rows = []
    try:
        for sid in ids:
            r = evaluate(sid, all_props, run_tests)
            print(sid, json.dumps({k: v for k, v in r.items() if k != "checks"}))
            rows.append((sid, r))
    finally:
        shutil.rmtree(os.path.join(VERIF, "evidence"), ignore_errors=True)
        shutil.copytree(os.path.join(ev_backup, "evidence"), os.path.join(VERIF, "evidence"))
        shutil.rmtree(ev_backup, ignore_errors=True)
        shutil.rmtree(os.path.join(VERIF, "replays"), ignore_errors=True)
    # summary over everything on disk
    lines = ["# Seeded changes: which checks catch which", "",
             "| id | property | needs | demo ok/fails | tests pass | caught by owner (oracles) | also caught by |", "|---|---|---|---|---|---|---|"]
    for p in sorted(glob.glob(os.path.join(VERIF, "seeded", "*", "meta.json"))):
        m = json.load(open(p))
        v = m.get("verification", {})
        own = (v.get("checks") or {}).get(m["property"], {})
        lines.append("| {} | {} | {} | {}/{} | {} | {} {} | {} |".format(
            os.path.basename(os.path.dirname(p)), m["property"], m.get("needs", "")[:90].replace("|", "/"),
            v.get("demo_passes_without_change"), v.get("demo_fails_with_change"), v.get("tests_pass_with_change"),
            "YES" if v.get("detected_by_owner") else "NO", ",".join(own.get("oracles", [])) if isinstance(own, dict) else "",
            ",".join(x for x in v.get("detected_by", []) if x != m["property"])))
    with open(os.path.join(VERIF, "seeded", "RESULTS.md"), "w") as f:
        f.write("\n".join(lines) + "\n")


if __name__ == "__main__":
    main()
