#!/venv/bin/python
"""Regenerates /verif/MANIFEST.json from the table below (kept in one place so
that the manifest is always valid and in step with the property modules)."""

import json
import os
import subprocess

HERE = os.path.dirname(os.path.dirname(os.path.abspath(__file__)))
PY = "/venv/bin/python"

# id -> (category, technique, text, note, design_ref)
CHECKS = {
    "C01": ("exploration", "seeded simulation of dispatcher call histories with injected invalid requests / resets; independent feasibility checker as step invariant",
            "Seeded search over instance shape x filter configuration x dispatch histories (every eligible machine, raw-ready and filtered choices) with rejected requests, query bursts and resets injected inside the history; after every op an independent checker re-derives feasibility from the schedule lists alone. Sampling, not proof: a clean batch is evidence.",
            "trusts sim/model.py check_feasible; instances are non-empty", "DESIGN 4 C01"),
    "C02": ("exploration", "seeded simulation against a reference model; history replay on fresh / reset dispatcher and through the frame-creation path",
            "Every accepted dispatch is compared with the model's forced start time and every tracking value with the value derived from the schedule; the recorded history (the only durable state) is re-dispatched after a restart on a fresh dispatcher, on the reset dispatcher and through create_gantt_chart_frames.",
            "trusts the reference model (sim/model.py); plotter and frame writer are stubs", "DESIGN 4 C02"),
    "C05": ("exploration", "seeded simulation: random query bursts interleaved with dispatches, faults and resets, each answer compared with a from-scratch reference recomputation",
            "Query-order/aliasing/staleness bugs need a particular interleaving of different queries and dispatches; the simulator samples those interleavings and checks every single answer against the model, independent of what was asked before.",
            "trusts the reference model's query definitions (taken from docstrings)", "DESIGN 4 C05"),
    "C06": ("exploration", "seeded simulation: invariant over consecutive states of dispatcher histories under every filter configuration",
            "Monotonicity of current time and of the completed set is checked between every pair of consecutive states of sampled histories (with resets and rejected requests in between), in exactly the statement's scope.",
            "scope: any instance without filter, positive durations with filters", "DESIGN 4 C06"),
    "C07": ("exploration", "seeded simulation: filters evaluated at every reached dispatcher state on full and sub-list inputs against reference criteria",
            "A filter's result depends on the reached dispatcher state; every built-in filter, seeded compositions and available_operations() are evaluated at every state of sampled histories on the ready list and on sub-lists, compared exactly with the documented criterion, plus bounded-liveness completion by available operations only.",
            "criteria as worded in the statement; dominated filter with zero-duration input only structurally, plus available_operations() == installed filter applied directly", "DESIGN 4 C07"),
    "C09": ("fault_enumeration", "systematic fault-point enumeration inside seeded histories: every prefix x every invalid-request kind, full-state snapshot comparison and twin run",
            "Atomicity of rejected requests must hold at every point of a history and for every kind of invalid request; inside each seeded history (dispatcher with the full observer zoo, or an environment) every prefix length x every invalid-request kind is injected, the complete public state is snapshotted before and after, and the end state is compared with a twin that never saw the faults.",
            "any exception type is a rejection; the private query cache is not observable state; histories are sampled, fault points inside them are enumerated", "DESIGN 4 C09"),
    "C10": ("exploration", "seeded simulation of subscription churn interleaved with dispatches, faults and resets; recording observer peers; callback log compared with a model",
            "Notification multiplicity, order and timing depend on the interleaving of subscribe/unsubscribe/create events with dispatches and resets; harness-defined recording observers log every callback together with what the dispatcher's queries answer inside the callback, and the global log is compared with the model's.",
            "re-entrant subscription changes inside update() are out of scope", "DESIGN 4 C10"),
    "C11": ("exploration", "seeded simulation of dispatch histories with all feature observers attached; every value compared with a from-scratch reference recomputation after every dispatch",
            "Incremental observers accumulate errors that depend on dispatch order and instance shape; every feature of every entity with work left is recomputed from instance + history by the reference model after each dispatch of seeded histories over the full instance swarm and observer configuration space.",
            "feature definitions as documented; scope restrictions exactly as in the statement", "DESIGN 4 C11"),
    "C12": ("fault_enumeration", "twin-world simulation: reset injected after every prefix of a seeded history, then a second history replayed and compared step by step with a fresh twin",
            "Staleness after reset depends on the reset point, on observer creation order and only shows in later episodes; the reset (the library's restart) is injected after every prefix of a seeded history, chained over several episodes, and the full public snapshot is compared with freshly built objects after the reset and after every following step, for dispatcher+observers and for both environments.",
            "twins share library code, so only staleness (not wrong values) shows; histories sampled, reset points enumerated", "DESIGN 4 C12"),
    "C13": ("exploration", "seeded simulation of dispatcher / environment histories with resets and rejected requests; reward sums compared with the reference model after every op",
            "The telescoping identities must hold for every prefix of every history; both reward observers are checked after every op of seeded histories (incl. non-extending dispatches, flexible choices, resets), and environment step rewards are compared with the emitted reward.",
            "idle time defined as the sum of gaps before each scheduled operation", "DESIGN 4 C13"),
    "C17": ("exploration", "seeded simulation of dispatch histories with the residual graph updater over all builders/options; removed-node mask and graph compared with model bounds after every dispatch",
            "Intermediate residual-graph invariants concern every state of every history; they are evaluated against the reference model's completed/scheduled sets after every op of seeded histories, including second episodes after reset.",
            "positive durations (statement's scope)", "DESIGN 4 C17"),
    "C18": ("exploration", "seeded simulation of single/multi environment episodes (legal, flexible and invalid actions, mid-episode resets) across the configuration space; every observation/flag/action checked",
            "The Gymnasium contract must hold for every configuration and every step of every episode; environments are built from seeded configurations and driven through 1-3 episodes while every returned value is checked against the declared spaces, the current graph and the model.",
            "space membership demanded with use_padding=True only; known findings F10/F10b (spaces sized from one sample) are reported, not failed", "DESIGN 4 C18"),
    "C03": ("exploration", "seeded simulation of solve() call histories on one reused solver object with injected time limits / deterministic CP-SAT budgets through the CpSolver constructor seam and a simulated clock; independent feasibility checker + exact reference optimum",
            "Reuse leftovers, limit handling and the rebuild of the schedule depend on the history of calls on one solver object and on injected time budgets; seeded histories of 2-5 solves over tiny instances (zero durations, recirculation, irregular) are checked against an independent feasibility checker, an exact branch-and-bound optimum, dispatching-rule upper bounds, lower bounds and a fresh solver. The CP-SAT search itself is real native code pinned to one worker and a fixed seed (not simulated).",
            "trusts sim/model.py opt_makespan; CP-SAT internals outside the simulator; benchmark bounds not re-checked in the quick tier", "DESIGN 4 C03"),
    "C04": ("exploration", "seeded simulation of rule-solver runs (stepwise with the rule consulted before each step, query bursts and RNG perturbation in between, two dispatchers alternating under the module-global scorer; end-to-end under a simulated clock with stalls and jumps)",
            "Rule choices depend on the reached state, on what was queried before, on the shared global scorer and RNG, and the metadata on the clock; the full rule x chooser x filter matrix is sampled and every selection compared with the rule's documented criterion on the reference model; termination is bounded liveness (n_ops steps).",
            "any best operation is accepted; most-operations-remaining accepted under either reading", "DESIGN 4 C04"),
    "C08": ("exploration", "seeded guided search over filtered dispatch histories of the real dispatcher for a witness reaching the exact optimum; bounded exhaustive confirmation on the single tiny instance before any report",
            "The statement is a minimum over all filtered histories: seeded search finds a witness (makespan = exact optimum of the unfiltered problem) on each seeded tiny instance; only when no witness is found is that one instance's filtered tree exhausted to confirm, so a VIOLATION is never a sampling artefact.",
            "trusts sim/model.py opt_makespan; instances <= 8 (quick) / 10 (thorough) operations", "DESIGN 4 C08"),
    "C14": ("exploration", "seeded simulation: one instance object shared by many actors with deep snapshots after every op; serialisation round trips at seeded points; seeded corruption of durable job sequences under a deterministic call budget",
            "Immutability must hold whatever sequence of dispatchers, solvers, observers, graph builders and environments touches the shared instance; rebuilding from durable sequences must accept exactly the acyclic ones and never hang. Both depend on histories / injected corruption and are simulated; the pure view definitions are checked as a by-product on the same instances.",
            "corruptions are permutations; hang = deterministic Python-call budget exceeded", "DESIGN 4 C14"),
    "C16": ("exploration", "seeded simulation of schedule-producing histories (dispatcher under filters, rule solver, CP-SAT, from_job_sequences); graphs compared with a reference specification, solved-graph critical path with the makespan",
            "Builder = specification is checked on every instance the histories use (all four builders, node ids, edge set, edge types, lookup helpers); for every final schedule the solved graph must be acyclic with longest path <= makespan, = makespan when dispatcher-built.",
            "double-typed edges accept either type", "DESIGN 4 C16"),
    "C19": ("exploration", "seeded simulation of 1-3 generators interleaved with each other, a random-rule solver and global-RNG perturbation; same-seed twins built later / interleaved; isolation oracle against a solo reference run",
            "Shape promises quantify over the parameter space and all draws; reproducibility is a promise about a shared randomness seam: every seeded generator's sequence inside an interleaved world is compared with the sequence it produces alone.",
            "statistical clause (all machines drawn) only when a miss has probability < 1e-9", "DESIGN 4 C19"),
    "C20": ("exploration", "seeded simulation of animation creation (history lengths 1-15 and 100-130) with a colour-coding stub plotter, permuted directory listings and stale frame directories, frames captured at the imageio seam; chart artists compared with the schedule",
            "Frame order depends on file naming and directory listing order and only breaks for >= 100 frames; the simulator owns the listing order and the frame sink and decodes which prefix each frame shows. Bars / legend / axis of plot_gantt_chart are read from the matplotlib artists for partial and final schedules of seeded histories.",
            "rendering (rasterisation, ffmpeg) not modelled; real GIF decoding only in the thorough tier", "DESIGN 4 C20"),
}

NOT_APPLICABLE = [
    {"property_id": "C15", "reason": "Equality and hashing are pure functions of a pair of values: no schedule, clock, fault, history or interleaving can influence them, so deterministic simulation with fault injection has nothing to decide (DESIGN 1). The harness's own comparisons never rely on the library's == (operations are compared by identity or by (job, position)); C14 merely demands that a rebuilt instance or schedule compares equal to the original."},
]

PENDING = ["C03", "C04", "C08", "C09", "C10", "C11", "C12", "C13", "C14", "C16", "C17", "C18", "C19", "C20"]


def main():
    src = subprocess.run(["git", "-C", "/repo", "log", "--format=%H %s"], capture_output=True, text=True).stdout.splitlines()
    hook_commits = [l.split()[0] for l in src if " hook:" in l or " verif-hook:" in l]
    checks = []
    for pid, (cat, tech, text, note, ref) in sorted(CHECKS.items()):
        checks.append({
            "property_id": pid,
            "quick_cmd": f"timeout 900 {PY} /verif/run.py check {pid} --tier quick",
            "thorough_cmd": f"timeout 3600 {PY} /verif/run.py check {pid} --tier thorough",
            "evidence_file": f"/verif/evidence/{pid}.json",
            "replay_cmd_template": f"{PY} /verif/run.py replay {{path}}",
            "engine": "jsl-sim",
            "level_claimed": {"category": cat, "text": text, "design_ref": ref},
            "level_note": note,
            "technique": tech,
        })
    na = list(NOT_APPLICABLE)
    for pid in PENDING:
        if pid not in CHECKS:
            na.append({"property_id": pid, "reason": "check not built yet in this round (designed in DESIGN.md section 4); not claimed until its check exists"})
    doc = {
        "version": 1,
        "setup_cmd": f"timeout 1200 {PY} /verif/run.py selftest-determinism --n 24",
        "hooks": {
            "guard": "JSL_VERIF",
            "enable": "no source hook is needed: all seams are module attributes and public parameters (DESIGN 2.1); checks import /repo's working tree directly",
            "baseline_off_cmd": "cd /repo && /venv/bin/python -m pytest -ra -q -p no:cacheprovider --timeout=900 --continue-on-collection-errors",
            "source_commits": hook_commits,
            "add_only": True,
        },
        "engines": [{
            "name": "jsl-sim", "path": "/verif/run.py", "serves_properties": sorted(CHECKS),
            "kind_free_text": "single-process deterministic simulator: seeded op/fault lists executed against the real library objects in lock-step with an independent reference model; ddmin shrinking; JSON replay files",
        }],
        "checks": checks,
        "not_applicable": sorted(na, key=lambda x: x["property_id"]),
        "notes": "Exit codes: 0 held (KNOWN-FINDING lines possible), 1 VIOLATION with replay file, 2 HARNESS-ERROR. VERIF_SEED selects the seed family. Fixed defects are listed in known_findings.json with status 'fixed' and suppress nothing.",
    }
    with open(os.path.join(HERE, "MANIFEST.json"), "w") as f:
        json.dump(doc, f, indent=1)
    print("wrote MANIFEST.json with", len(checks), "checks;", len(na), "not applicable/pending")


if __name__ == "__main__":
    main()
