#!/venv/bin/python
"""Which lines of job_shop_lib do the checks' worlds execute?  (development aid, not a registered check)

Runs the first K cases of every claimed property in-process under coverage.py and prints, per library file,
the lines no check reached.  usage: coverage_report.py [K] [props,comma,separated]
"""
import os
import sys

sys.path.insert(0, os.path.dirname(os.path.dirname(os.path.abspath(__file__))))
os.environ.setdefault("MPLBACKEND", "Agg")
import coverage  # noqa: E402

K = int(sys.argv[1]) if len(sys.argv) > 1 else 300
from sim import runner  # noqa: E402

runner.setup_imports()
import job_shop_lib  # noqa: E402

src = os.path.dirname(job_shop_lib.__file__)
cov = coverage.Coverage(source=[src], data_file=None, branch=True)
props = sys.argv[2].split(",") if len(sys.argv) > 2 else ["C%02d" % i for i in range(1, 21) if i != 15]
# modules were imported before coverage started: only executed function bodies matter here
cov.start()
known = runner.load_known()
for pid in props:
    mod = runner.load_prop(pid)
    for idx in range(K if pid not in ("C03", "C20", "C09", "C12") else max(20, K // 10)):
        seed = runner.run_seed(pid, "quick", 0, idx)
        case = mod.generate(seed, "quick")
        case["seed"], case["index"] = seed, idx
        try:
            runner.run_case(mod, case, known)
        except BaseException as e:  # noqa: BLE001
            print("case failed", pid, idx, type(e).__name__, e)
cov.stop()
data = cov.get_data()
for f in sorted(data.measured_files()):
    an = cov.analysis2(f)
    missing = an[3]
    # drop module-level lines (imports, def/class statements executed at import time before coverage started)
    import ast

    tree = ast.parse(open(f).read())
    inside = set()
    for node in ast.walk(tree):
        if isinstance(node, (ast.FunctionDef, ast.AsyncFunctionDef)):
            body0 = node.body[0]
            start = body0.lineno
            if isinstance(body0, ast.Expr) and isinstance(getattr(body0, "value", None), ast.Constant) and isinstance(body0.value.value, str):
                start = body0.end_lineno + 1
            inside.update(range(start, node.end_lineno + 1))
    miss = [ln for ln in missing if ln in inside]
    arcs = [(a, b) for a, b in sorted(cov._analyze(f).arcs_missing()) if a in inside and a not in missing and b > 0 and (b in inside)]
    if miss or arcs:
        print(f"{os.path.relpath(f, src)}: lines {miss} branches {arcs}")
