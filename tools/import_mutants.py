#!/venv/bin/python
"""Imports the deliverables of a mutant sub-agent from its scratch worktree
(/tmp/wt-<PID>/mutants) into /verif/seeded/<PID>-mK/ and removes the worktree."""
import json, os, shutil, subprocess, sys
pid = sys.argv[1]
rnd = sys.argv[2] if len(sys.argv) > 2 else "1"
wt = f"/tmp/wt-{pid}" if rnd == "1" else f"/tmp/w{rnd}-{pid}"
src = f"{wt}/mutants"
tag = "m" if rnd == "1" else {"2": "n", "3": "p", "4": "q", "5": "r", "6": "s", "7": "t", "8": "u", "9": "v"}[rnd]
out = []
for k in (1, 2, 3, 4, 5, 6):
    if not os.path.exists(f"{src}/m{k}.diff"):
        continue
    demo_text = open(f"{src}/m{k}_demo.py").read()
    if "._transformations" in demo_text or "import _transformations" in demo_text:
        print(f"skipping {pid} m{k}: its demonstration needs a private, unexported module (not kept)")
        continue
    sid = f"{pid}-{tag}{k}"
    d = f"/verif/seeded/{sid}"
    os.makedirs(d, exist_ok=True)
    shutil.copy(f"{src}/m{k}.diff", f"{d}/patch.diff")
    shutil.copy(f"{src}/m{k}_demo.py", f"{d}/demo.py")
    try:
        meta = json.load(open(f"{src}/m{k}.json"))
    except Exception:
        meta = {"property": pid, "what": "?", "needs": "?"}
    meta["property"] = pid
    meta["origin"] = "independent sub-agent given only the property text and a scratch worktree of /repo HEAD"
    meta["demo"] = "demo.py"
    json.dump(meta, open(f"{d}/meta.json", "w"), indent=1)
    out.append(sid)
subprocess.run(["git", "-C", "/repo", "worktree", "remove", "--force", wt])
print(" ".join(out))
