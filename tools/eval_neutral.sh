#!/bin/bash
# Applies every neutral refactoring to a scratch copy of /repo HEAD and runs all claimed quick checks against it.
for P in /verif/neutral/*.diff; do
  D=$(mktemp -d /tmp/jsl-neutral-XXXXXX); git -C /repo archive HEAD | tar -x -C "$D"
  (cd "$D" && patch -p1 -s < "$P") || { echo "PATCH FAILED $P"; rm -rf "$D"; continue; }
  for C in $(/venv/bin/python -c "import json;print(' '.join(c['property_id'] for c in json.load(open('/verif/MANIFEST.json'))['checks']))" 2>/dev/null); do
    JSL_REPO="$D" /venv/bin/python /verif/run.py check "$C" --n "${N:-3000}" 2>&1 | grep -E "^\[C.*exit|VIOLATION|HARNESS" | cut -c1-160
  done
  rm -rf "$D"
done
