#!/venv/bin/python
"""Regenerates seeded/RESULTS.md from the meta.json files (no checks are run)."""
import glob, json, os
V = os.path.dirname(os.path.dirname(os.path.abspath(__file__)))
rows = []
for p in sorted(glob.glob(os.path.join(V, "seeded", "*", "meta.json"))):
    m = json.load(open(p)); v = m.get("verification", {})
    own = (v.get("checks") or {}).get(m["property"], {})
    rows.append((os.path.basename(os.path.dirname(p)), m, v, own))
lines = ["# Seeded changes: which checks catch which", "",
         "Produced by independent sub-agents that saw only the property text and a scratch worktree; verified by tools/eval_seeded.py", "",
         "| id | property | what the change does | needs | demo ok / fails | 190 tests pass | owner's quick check reports it (oracles) | first missed? |", "|---|---|---|---|---|---|---|---|"]
for sid, m, v, own in rows:
    lines.append("| {} | {} | {} | {} | {} / {} | {} | {} {} | {} |".format(
        sid, m["property"], str(m.get("what", ""))[:160].replace("|", "/").replace("\n", " "), str(m.get("needs", ""))[:160].replace("|", "/").replace("\n", " "),
        v.get("demo_passes_without_change"), v.get("demo_fails_with_change"), v.get("tests_pass_with_change", "(not re-run)"),
        "YES" if v.get("detected_by_owner") else "NO", ",".join(own.get("oracles", [])) if isinstance(own, dict) else "",
        m.get("initially_missed", "")))
n = len(rows); det = sum(1 for r in rows if r[2].get("detected_by_owner"))
lines += ["", f"{det} of {n} seeded changes are reported by the quick check of the property they break."]
open(os.path.join(V, "seeded", "RESULTS.md"), "w").write("\n".join(lines) + "\n")
print(det, "of", n)
