#!/venv/bin/python
"""CLI of the deterministic-simulation checks for job_shop_lib.

  run.py check <Cxx> [--tier quick|thorough] [--n N] [--workers W]
  run.py replay <file> [--trace]
  run.py one <Cxx> <index> [--tier T] [--trace]     (debug: a single run)
  run.py selftest-determinism [--n N]

Exit codes: 0 held, 1 VIOLATION (replayable), 2 HARNESS-ERROR.
"""

import os
import sys

# Re-exec once with a fixed hash seed: one integer decides everything.
if os.environ.get("PYTHONHASHSEED") is None:
    os.environ["PYTHONHASHSEED"] = "0"
    os.execv(sys.executable, [sys.executable] + sys.argv)

os.environ.setdefault("MPLBACKEND", "Agg")
os.environ.setdefault("OMP_NUM_THREADS", "1")
os.environ.setdefault("OPENBLAS_NUM_THREADS", "1")
HERE = os.path.dirname(os.path.abspath(__file__))
sys.path.insert(0, HERE)

import argparse  # noqa: E402
import json  # noqa: E402
import traceback  # noqa: E402


def main():
    ap = argparse.ArgumentParser()
    sub = ap.add_subparsers(dest="cmd", required=True)
    c = sub.add_parser("check")
    c.add_argument("pid")
    c.add_argument("--tier", default=os.environ.get("VERIF_TIER") or "quick")
    c.add_argument("--n", type=int)
    c.add_argument("--workers", type=int)
    c.add_argument("--budget", type=float)
    r = sub.add_parser("replay")
    r.add_argument("path")
    r.add_argument("--trace", action="store_true")
    o = sub.add_parser("one")
    o.add_argument("pid")
    o.add_argument("index", type=int)
    o.add_argument("--tier", default="quick")
    o.add_argument("--trace", action="store_true")
    s = sub.add_parser("selftest-determinism")
    s.add_argument("--n", type=int, default=40)
    s.add_argument("--props", default="")
    g = sub.add_parser("digests")
    g.add_argument("pid")
    g.add_argument("--n", type=int, default=40)
    g.add_argument("--workers", type=int, default=1)
    a = ap.parse_args()
    verif_seed = int(os.environ.get("VERIF_SEED") or 0)

    from sim import runner

    if a.cmd == "check":
        tier = a.tier if a.tier in ("quick", "thorough") else "quick"
        try:
            return runner.check(a.pid.upper(), tier, verif_seed, a.n, a.workers, a.budget)
        except Exception:
            print("HARNESS-ERROR:", traceback.format_exc())
            return 2
    if a.cmd == "replay":
        try:
            ok, text, doc, res = runner.replay_file(a.path, trace=a.trace)
        except Exception:
            print("HARNESS-ERROR:", traceback.format_exc())
            return 2
        if ok:
            print(f"  violated oracle {text}")
            print(f"VIOLATION property={doc['property']} replay={os.path.abspath(a.path)}")
            return 1
        print(f"no violation on replay: {text}")
        return 0
    if a.cmd == "one":
        runner.setup_imports()
        mod = runner.load_prop(a.pid.upper())
        seed = runner.run_seed(a.pid.upper(), a.tier, verif_seed, a.index)
        case = mod.generate(seed, a.tier)
        case["seed"] = seed
        case["index"] = a.index
        print(json.dumps(case, default=str)[:4000])
        res = runner.run_case(mod, case, runner.load_known(), trace=a.trace)
        res["states"] = len(res["states"])
        print(json.dumps(res, default=str, indent=1))
        return 0
    if a.cmd == "digests":
        from sim import selftest

        print(json.dumps(selftest.digests(a.pid.upper(), a.n, a.workers, verif_seed=verif_seed), sort_keys=True))
        return 0
    if a.cmd == "selftest-determinism":
        from sim import selftest

        return selftest.determinism(a.n, [p for p in a.props.split(",") if p])
    return 2


if __name__ == "__main__":
    sys.exit(main())
