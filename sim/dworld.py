"""Dispatcher world: a real ``Dispatcher`` (+ observers) stepped in lock-step
with the reference model by a recorded list of abstract operations."""

from __future__ import annotations

import math

from .core import Ctx, owner_of_exception, short_exc
from .instances import build, as_tuple
from .model import Model, UNDEFINED, check_feasible
from .util import Violation, Foreign, h64

QUERIES0 = [
    "current_time", "available_operations", "raw_ready_operations",
    "unscheduled_operations", "scheduled_operations", "available_machines",
    "available_jobs", "completed_operations", "uncompleted_operations",
    "ongoing_operations",
]
QUERIES1 = ["earliest_start_time", "next_operation", "is_scheduled", "uns_observer", "min_start_time", "start_time", "is_ongoing"]
INVALID_KINDS = [
    "ahead", "already_scheduled", "ineligible_machine", "machine_too_large",
    "machine_too_negative", "none_on_flexible", "reassign_ineligible",
]
FEATURE_TYPES = [
    "is_ready", "earliest_start_time", "duration", "is_scheduled",
    "position_in_job", "remaining_operations", "is_completed",
]
LEVELS = {
    "is_ready": ["operations", "machines", "jobs"],
    "earliest_start_time": ["operations", "machines", "jobs"],
    "duration": ["operations", "machines", "jobs"],
    "is_scheduled": ["operations", "machines", "jobs"],
    "position_in_job": ["operations"],
    "remaining_operations": ["machines", "jobs"],
    "is_completed": ["operations", "machines", "jobs"],
}
BUILDERS = ["disjunctive", "agent_task", "agent_task_with_jobs", "agent_task_complete"]


def build_from_blocks_reversed(instance):
    """The complete agent-task graph composed by hand from the exported building blocks, with the machine and job
    nodes added in descending id order (nothing says in which order a user adds them)."""
    from job_shop_lib import graphs as g
    from job_shop_lib.graphs import JobShopGraph, Node, NodeType

    graph = JobShopGraph(instance)
    for m in reversed(range(instance.num_machines)):
        graph.add_node(Node(node_type=NodeType.MACHINE, machine_id=m))
    g.add_operation_machine_edges(graph)
    g.add_machine_machine_edges(graph)
    for j in reversed(range(instance.num_jobs)):
        graph.add_node(Node(node_type=NodeType.JOB, job_id=j))
    g.add_operation_job_edges(graph)
    g.add_global_node(graph)
    g.add_machine_global_edges(graph)
    g.add_job_global_edges(graph)
    return graph


def build_from_blocks_jobs_only(instance):
    """A hand-composed graph with job nodes and a global node but no machine nodes (job-chain edges between the
    operations, operation-job and job-global edges)."""
    from job_shop_lib import graphs as g
    from job_shop_lib.graphs import JobShopGraph

    graph = JobShopGraph(instance)
    g.add_conjunctive_edges(graph)
    g.add_job_nodes(graph)
    g.add_operation_job_edges(graph)
    g.add_global_node(graph)
    g.add_job_global_edges(graph)
    return graph


def graph_builder(name):
    from job_shop_lib import graphs as g

    if name == "blocks_reversed":
        return build_from_blocks_reversed
    if name == "blocks_jobs_only":
        return build_from_blocks_jobs_only
    return {
        "disjunctive": g.build_disjunctive_graph,
        "agent_task": g.build_agent_task_graph,
        "agent_task_with_jobs": g.build_agent_task_graph_with_jobs,
        "agent_task_complete": g.build_complete_agent_task_graph,
    }[name]


def make_filter(names, style="callable"):
    """Builds the ready-operations filter the way a user would."""
    if not names:
        return None
    from job_shop_lib.dispatching import (
        filter_dominated_operations, filter_non_immediate_machines,
        filter_non_idle_machines, filter_non_immediate_operations,
        ready_operations_filter_factory, create_composite_operation_filter,
        ReadyOperationsFilterType,
    )

    funcs = {
        "dominated_operations": filter_dominated_operations,
        "non_immediate_machines": filter_non_immediate_machines,
        "non_idle_machines": filter_non_idle_machines,
        "non_immediate_operations": filter_non_immediate_operations,
    }
    def user_keep_last(dispatcher, operations):
        return operations[-1:]

    def user_longest_only(dispatcher, operations):
        if not operations:
            return []
        mx = max(o.duration for o in operations)
        return [o for o in operations if o.duration == mx]

    def user_none_if_single(dispatcher, operations):
        # "no decision to take": a filter that returns nothing when only one candidate is left (a filter may do that;
        # the dispatcher then simply reports no available operation in that state)
        return [] if len(operations) == 1 else operations

    funcs["user_keep_last"] = user_keep_last
    funcs["user_longest_only"] = user_longest_only
    funcs["user_none_if_single"] = user_none_if_single
    kinds = ["name", "enum", "callable"]

    def one(name, i):
        if name.startswith("user_"):
            return funcs[name]  # a user's own filter is always handed over as a callable
        st = style if style in kinds else kinds[i % 3]
        if st == "callable":
            return funcs[name]
        if st == "enum":
            return ReadyOperationsFilterType(name)
        return name

    if len(names) == 1 and style not in ("composite", "generator", "tuple"):
        return ready_operations_filter_factory(one(names[0], 0))
    parts = [one(n, i) for i, n in enumerate(names)]
    if style == "generator":  # any Iterable is a valid description of a composition
        return create_composite_operation_filter(p for p in parts)
    if style == "tuple":
        return create_composite_operation_filter(tuple(parts))
    return create_composite_operation_filter(parts)


def gen_filter(rng, positive, p_none=0.35, user=0.0, emptying=False):
    """Filter configuration (names, style).  With zero durations the dominated
    filter is still allowed (its result is then only checked structurally).
    `user`: probability that a user-defined filter (which may hide the
    earliest-starting operation) is used or mixed in."""
    from .model import FILTERS, USER_FILTERS

    r = rng.random()
    if r < p_none:
        return [], "callable"
    pool = list(FILTERS)
    if user and rng.random() < user:
        pool = list(USER_FILTERS) + [rng.choice(FILTERS)] + (["user_none_if_single"] if emptying else [])
    if r < p_none + 0.35:
        names = [rng.choice(pool)]
    else:
        names = [rng.choice(pool) for _ in range(rng.randint(2, 3))]
    style = rng.choice(["name", "enum", "callable", "mixed", "composite", "generator", "tuple"])
    return names, style


_REC = {}


def rec_classes():
    """Harness-defined recording observers (singleton and non-singleton)."""
    if _REC:
        return _REC
    from job_shop_lib.dispatching import DispatcherObserver

    class _Rec(DispatcherObserver):
        def __init__(self, dispatcher, *, subscribe=True, tag="", sink=None, peek=None):
            self.tag = tag
            self.sink = sink if sink is not None else []
            self.peek = peek
            super().__init__(dispatcher, subscribe=subscribe)

        def update(self, scheduled_operation):
            so = scheduled_operation
            seen = self.peek(self.dispatcher) if self.peek else None
            self.sink.append(("update", self.tag, so.operation.operation_id, so.machine_id, so.start_time, seen))

        def reset(self):
            seen = self.peek(self.dispatcher) if self.peek else None
            self.sink.append(("reset", self.tag, seen))

    class RecSingle(_Rec):
        _is_singleton = True

    class RecMulti(_Rec):
        _is_singleton = False

    class RecOther(_Rec):
        _is_singleton = True

    class RecSingleSub(RecSingle):
        """A user's refinement of a singleton observer: it *is* a RecSingle."""

    _REC.update(single=RecSingle, multi=RecMulti, other=RecOther, subsingle=RecSingleSub)
    return _REC


def _ft(levels):
    from job_shop_lib.dispatching.feature_observers import FeatureType

    if levels is None:
        return None
    return [FeatureType(x) for x in levels]


def mark_manual(rng, obs, p=0.1):
    """Some observers are constructed unsubscribed and subscribed by hand right afterwards (``subscribe=False`` then
    ``dispatcher.subscribe``): to the user this is the same as ``subscribe=True``."""
    for s in obs:
        if s["t"] not in ("unscheduled", "composite") and rng.random() < p:
            s["manual"] = True
    return obs


def make_observer(disp, spec, world=None):
    """Constructs one observer from its JSON spec (may raise: caller decides)."""
    if spec.get("manual"):
        o = make_observer(disp, {**spec, "manual": False, "sub": False}, world)
        disp.subscribe(o)
        return o
    t = spec["t"]
    sub = spec.get("sub", True)
    if t in FEATURE_TYPES:
        from job_shop_lib.dispatching.feature_observers import feature_observer_factory

        kw = {}
        how = spec.get("how", "str")
        if spec.get("ft") is not None:
            kw["feature_types"] = _ft(spec["ft"])
            if len(kw["feature_types"]) == 1 and how in ("enum", "class"):
                kw["feature_types"] = kw["feature_types"][0]  # a single FeatureType is accepted in place of a list
        if how == "class":
            # the class itself, constructed directly (no factory)
            from job_shop_lib.dispatching import feature_observers as fo

            cls = getattr(fo, "".join(x.capitalize() for x in t.split("_")) + "Observer")
            return cls(disp, subscribe=sub, **kw)
        if how == "enum":
            from job_shop_lib.dispatching.feature_observers import FeatureObserverType

            return feature_observer_factory(FeatureObserverType(t), dispatcher=disp, subscribe=sub, **kw)
        if how == "config":
            from job_shop_lib.dispatching import DispatcherObserverConfig

            return feature_observer_factory(DispatcherObserverConfig(t, kwargs=kw), dispatcher=disp, subscribe=sub)
        return feature_observer_factory(t, dispatcher=disp, subscribe=sub, **kw)
    if t == "composite":
        from job_shop_lib.dispatching.feature_observers import CompositeFeatureObserver

        if spec.get("explicit"):
            # the parts named explicitly: the feature observers subscribed right now, i.e. what the default picks up
            from job_shop_lib.dispatching.feature_observers import FeatureObserver

            return CompositeFeatureObserver(disp, subscribe=sub, feature_observers=[o for o in disp.subscribers if isinstance(o, FeatureObserver)])
        return CompositeFeatureObserver(disp, subscribe=sub)
    if t == "unscheduled":
        from job_shop_lib.dispatching import UnscheduledOperationsObserver

        if sub and spec.get("cog", True):
            # a feature observer created earlier may already have subscribed one
            return disp.create_or_get_observer(UnscheduledOperationsObserver)
        return UnscheduledOperationsObserver(disp, subscribe=sub)
    if t == "history":
        from job_shop_lib.dispatching import HistoryObserver

        return HistoryObserver(disp, subscribe=sub)
    if t == "makespan_reward":
        from job_shop_lib.reinforcement_learning import MakespanReward

        return MakespanReward(disp, subscribe=sub)
    if t == "idle_reward":
        from job_shop_lib.reinforcement_learning import IdleTimeReward

        return IdleTimeReward(disp, subscribe=sub)
    if t == "residual":
        from job_shop_lib.graphs.graph_updaters import ResidualGraphUpdater

        graph = graph_builder(spec["builder"])(disp.instance)
        if spec.get("pre_removed") is not None:
            # the user dropped a non-operation node (e.g. the source, or a machine they do not care about)
            # before handing the graph over
            cand = [n.node_id for n in graph.nodes if n.node_type.name != "OPERATION" and not graph.is_removed(n)]
            if cand:
                graph.remove_node(cand[spec["pre_removed"] % len(cand)])
        if spec.get("kw_default"):
            # the documented defaults (remove completed machine and job nodes), not spelled out by the caller
            return ResidualGraphUpdater(disp, graph, subscribe=sub)
        return ResidualGraphUpdater(
            disp, graph, subscribe=sub,
            remove_completed_machine_nodes=spec.get("rm", True),
            remove_completed_job_nodes=spec.get("rj", True),
        )
    if t == "edge_updater":
        return edge_updater_class()(disp, graph_builder(spec["builder"])(disp.instance), subscribe=sub)
    raise ValueError(f"unknown observer spec {spec}")


_EDGE = []


def edge_updater_class():
    """A user's own GraphUpdater: it never removes nodes, it only drops the incoming edges of each scheduled
    operation (its predecessors are decided).  reset() is the base class's."""
    if not _EDGE:
        from job_shop_lib.graphs.graph_updaters import GraphUpdater

        class EdgeOrienter(GraphUpdater):
            def update(self, scheduled_operation):
                g = self.job_shop_graph.graph
                n = scheduled_operation.operation.operation_id
                g.remove_edges_from(list(g.in_edges(n)))

        _EDGE.append(EdgeOrienter)
    return _EDGE[0]


def _arr(a):
    out = a.tolist()

    def fix(x):
        if isinstance(x, list):
            return [fix(y) for y in x]
        if isinstance(x, float) and math.isnan(x):
            return "nan"
        return x

    return fix(out)


def observe_observer(o):
    """Canonical JSON-able snapshot of an observer's public state."""
    name = type(o).__name__
    out = {"type": name}
    if hasattr(o, "features") and isinstance(getattr(o, "features"), dict):
        out["features"] = {getattr(k, "value", str(k)): _arr(v) for k, v in o.features.items()}
        out["dtypes"] = {getattr(k, "value", str(k)): str(v.dtype) for k, v in o.features.items()}
    # documented extra attributes, read defensively (a refactoring may drop them; they are only ever compared
    # between two worlds running the same code)
    if name == "EarliestStartTimeObserver" and hasattr(o, "earliest_start_times"):
        out["est"] = _arr(o.earliest_start_times)
    if name == "IsCompletedObserver":
        for key, attr in (("rem_m", "remaining_ops_per_machine"), ("rem_j", "remaining_ops_per_job")):
            if hasattr(o, attr):
                out[key] = _arr(getattr(o, attr))
    if name == "CompositeFeatureObserver":
        out["columns"] = {getattr(k, "value", str(k)): list(v) for k, v in o.column_names.items()}
        out["parts"] = [type(p).__name__ for p in getattr(o, "feature_observers", [])]
    if name == "UnscheduledOperationsObserver":
        out["uns"] = [[op.operation_id for op in dq] for dq in o.unscheduled_operations_per_job]
    if name == "HistoryObserver":
        out["history"] = [(so.operation.operation_id, so.start_time, so.machine_id) for so in o.history]
    if hasattr(o, "rewards"):
        out["rewards"] = [float(r) for r in o.rewards]
        out["last_reward"] = float(o.last_reward)
        if hasattr(o, "current_makespan"):
            out["current_makespan"] = o.current_makespan
    if hasattr(o, "job_shop_graph"):
        g = o.job_shop_graph
        out["removed"] = [bool(x) for x in g.removed_nodes]
        out["edges"] = sorted((int(u), int(v)) for u, v in g.graph.edges())
        out["gnodes"] = sorted(int(n) for n in g.graph.nodes())
    if hasattr(o, "sink") and hasattr(o, "tag"):
        out["tag"] = o.tag
    return out


def observe_dispatcher(d, with_subscribers=True):
    out = {
        "nxt": list(d.job_next_operation_index),
        "jav": list(d.job_next_available_time),
        "mav": list(d.machine_next_available_time),
        "sched": [[(so.operation.operation_id, so.start_time, so.machine_id) for so in ml] for ml in d.schedule.schedule],
        "n": d.schedule.num_scheduled_operations,
        "makespan": d.schedule.makespan(),
        "complete": d.schedule.is_complete(),
    }
    if with_subscribers:
        out["subs"] = [observe_observer(s) for s in d.subscribers]
    return out


class DWorld:
    """cfg: {"instance": spec, "filter": [names], "filter_style": str,
    "observers": [spec...]}"""

    def __init__(self, cfg, ctx: Ctx):
        from job_shop_lib.dispatching import Dispatcher

        self.cfg = cfg
        self.ctx = ctx
        self.spec = cfg["instance"]
        self.jobs = as_tuple(self.spec)
        self.inst = build(self.spec)
        self.filter_names = list(cfg.get("filter") or [])
        self.disp = Dispatcher(self.inst, ready_operations_filter=make_filter(self.filter_names, cfg.get("filter_style", "callable")))
        self.model = Model(self.jobs, self.filter_names)
        self.ops_by_id = [op for job in self.inst.jobs for op in job]
        self.observers = []  # (spec, object)
        self.accepted = []  # (op_id, machine) since last reset
        self.n_resets = 0
        self.inst_hash = h64(self.spec["jobs"])
        self.time_related_ok = self.model.positive or not self.filter_names
        for ospec in cfg.get("observers", []):
            self.add_observer(ospec)

    # ------------------------------------------------------------ observers
    def add_observer(self, ospec, owner="C11"):
        try:
            o = make_observer(self.disp, ospec, self)
        except Exception as e:  # noqa: BLE001 - library exception, classified
            self.lib_error(owner, "observer_constructor_raised", f"constructing {ospec} raised {short_exc(e)}",
                           observer=ospec["t"], exc=type(e).__name__)
            return None
        self.observers.append((ospec, o))
        return o

    def lib_error(self, owner, oracle, message, **keys):
        """An exception escaped from the library in a call owned by `owner`."""
        if owner == self.ctx.prop:
            return self.ctx.fail(oracle, message, **keys)
        raise Foreign(owner, message)

    # -------------------------------------------------------------- helpers
    def op_of(self, j, p):
        return self.inst.jobs[j][p]

    def jp(self, op):
        return (op.job_id, op.position_in_job)

    def sync_available_override(self):
        """Where the spec of available_operations() is undefined (dominated
        filter fed a zero-duration op) the structurally valid real answer is
        taken as given so that dependent oracles can proceed."""
        m = self.model
        m.avail_override = None
        if m.available() is UNDEFINED:
            real = [self.jp(o) for o in self.call_query("available_operations")]
            ready = m.ready()
            if not real or any(x not in ready for x in real) or len(set(real)) != len(real):
                raise Foreign("C07", f"filter returned structurally invalid list {real} for ready {ready}")
            m.avail_override = real

    def call_query(self, name, *args):
        try:
            return getattr(self.disp, name)(*args)
        except Exception as e:  # noqa: BLE001
            owner = owner_of_exception(e, "C05")
            self.lib_error(owner, "query_raised", f"{name}{args} raised {short_exc(e)}", query=name, exc=type(e).__name__)
            raise Foreign(owner, f"{name} raised (known)")

    def solve_rest(self, rule, chooser):
        """The user hands the dispatcher to a DispatchingRuleSolver, which finishes the episode
        (`solver.solve(instance, dispatcher)`); the model follows through a recording observer."""
        from job_shop_lib.dispatching.rules import DispatchingRuleSolver

        sink = []
        rec = rec_classes()["multi"](self.disp, tag="solve_rest", sink=sink)
        try:
            solver = DispatchingRuleSolver(dispatching_rule=rule, machine_chooser=chooser, ready_operations_filter=self.disp.ready_operations_filter)
            solver.solve(self.inst, self.disp)
        except Exception as e:  # noqa: BLE001
            own = owner_of_exception(e, "C04")
            raise Foreign(own, f"solver.solve(instance, dispatcher) raised {short_exc(e)}")
        finally:
            self.disp.unsubscribe(rec)
        updates = [e for e in sink if e[0] == "update"]  # (anything else the recorder was told is C10's business)
        for (_, _, op_id, mm, start, _) in updates:
            j, p = self.model.ops[op_id]
            if self.model.nxt[j] != p or mm not in self.model.machines(j, p):
                raise Foreign("C04", "the rule solver dispatched an operation that is not ready")
            self.model.dispatch(j, p, mm)
            self.accepted.append((op_id, mm))
        self.ctx.sim_time = max(self.ctx.sim_time, self.model.makespan())
        return len(updates)

    def fork(self):
        """The user deep-copies the dispatcher (with everything subscribed to it) mid-history - a rollout /
        look-ahead / checkpoint - and carries on with the copy."""
        import copy

        old = self.disp
        new = copy.deepcopy(old)
        old_subs = list(old.subscribers)
        self.observers = [(spec, new.subscribers[old_subs.index(o)] if any(o is x for x in old_subs) else o) for spec, o in self.observers]
        self.disp = new
        if len(self.model.hist) % 2 == 0:
            self.inst = new.instance
            self.ops_by_id = [op for job in self.inst.jobs for op in job]
        else:
            # a look-ahead: the user keeps dispatching the operation objects they already hold (those of the
            # original instance) on the copy
            self.ctx.probe("fork_keeps_original_operation_objects")
        self.ctx.fault("fork_deepcopy")

    def arg_query(self, name, arg):
        """Public queries that take arguments, on seeded arguments.  Returns
        (got, expected-by-the-model) or None when not applicable."""
        m = self.model
        ready = m.ready()
        if not ready:
            return None
        if name == "min_start_time":
            # a seeded non-empty sub-list of the ready operations (bits of arg)
            sub = [x for k, x in enumerate(ready) if (arg >> k) & 1] or [ready[arg % len(ready)]]
            return self.call_query(name, [self.op_of(j, p) for j, p in sub]), m.min_start(sub), sub
        if name == "start_time":
            # any unscheduled operation, ready or not: the documented value is max(machine free, job free) right now
            uns = m.unscheduled()
            j, p = uns[arg % len(uns)]
            ms = m.machines(j, p)
            mm = ms[(arg // 7) % len(ms)]
            return self.call_query(name, self.op_of(j, p), mm), m.start(j, p, mm), (j, p, mm)
        j, p = ready[arg % len(ready)]
        if name == "earliest_start_time":
            return self.call_query(name, self.op_of(j, p)), m.est1(j, p), (j, p)
        return None

    def abstract_state(self):
        d = self.disp
        return (self.inst_hash, tuple(d.job_next_operation_index), tuple(d.machine_next_available_time), tuple(d.job_next_available_time))

    def mark_state(self, extra=None):
        st = self.abstract_state()
        self.ctx.states.add(h64(st if extra is None else (st, extra)))
        return st

    # ------------------------------------------------------------------ ops
    def resolve_dispatch(self, a, b, src):
        """Returns (operation, machine) or None when nothing is left."""
        if self.model.is_complete():
            return None
        if src == 1:
            cands = list(self.call_query("available_operations"))
            if not cands:
                if self.model.available() != []:
                    # a filter returned nothing although work is left: C07's business
                    self.lib_error("C07", "filter_empty", "available_operations() is empty although operations are ready")
                # (an emptying user filter: the user falls back to the ready operations - the next operation of every
                # unfinished job, taken from the instance they hold)
                cands = [self.op_of(j, p) for j, p in self.model.ready()]
        else:
            cands = [self.op_of(j, p) for j, p in self.model.ready()]
        op = cands[a % len(cands)]
        m = op.machines[b % len(op.machines)]
        return op, m

    def do_dispatch(self, op, m, use_none=False):
        """Valid dispatch on real + model.  Returns the model's (start, end)."""
        j, p = self.jp(op)
        try:
            if use_none:
                self.disp.dispatch(op)
            else:
                self.disp.dispatch(op, m)
        except Exception as e:  # noqa: BLE001
            owner = owner_of_exception(e, "C01")
            self.lib_error(owner, "valid_dispatch_raised", f"dispatch(({j},{p}), {m}) raised {short_exc(e)}", exc=type(e).__name__)
            raise Foreign(owner, "valid dispatch raised (known)")
        if self.model.nxt[j] != p or m not in self.model.machines(j, p):
            # the real dispatcher offered and accepted something the specification does not consider a valid
            # request in this state (its bookkeeping has diverged from its schedule): judge what it produced
            errs = check_feasible(self.jobs, self.real_machine_lists())
            if errs and self.ctx.prop == "C01":
                self.ctx.fail("feasible_after_every_step", f"dispatch(({j},{p}), {m}) was offered by available_operations() and accepted although the job's next position is {self.model.nxt[j]}: " + "; ".join(errs[:3]))
            raise Foreign("C05", f"dispatcher offered/accepted ({j},{p}) on {m} while the specification expects position {self.model.nxt[j]} next")
        se = self.model.dispatch(j, p, m)
        self.accepted.append((op.operation_id, m))
        self.ctx.sim_time = max(self.ctx.sim_time, se[1])
        return se

    def do_reset(self):
        try:
            self.disp.reset()
        except Exception as e:  # noqa: BLE001
            owner = owner_of_exception(e, "C12")
            self.lib_error(owner, "reset_raised", f"reset() raised {short_exc(e)}", exc=type(e).__name__)
            raise Foreign(owner, "reset raised (known)")
        self.model.reset()
        self.accepted = []
        self.n_resets += 1
        self.ctx.fault("restart")

    def invalid_request(self, kind, a, b):
        """Builds an invalid dispatch request of `kind`; returns a thunk and a
        description, or None if this kind is impossible in the current state.
        A quarter of the machine ids are handed over as numpy integers (what a
        numpy policy or action_space.sample() produces)."""
        r = self._invalid_request(kind, a, b)
        return r

    def _np(self, a, b, mm):
        import numpy as np

        return (np.int64(mm) if (a + b) % 8 == 0 else np.int32(mm)) if (a + 3 * b) % 4 == 0 else mm

    def _invalid_request(self, kind, a, b):
        m = self.model
        nxt = m.nxt
        d = self.disp
        if kind == "ahead":
            c = [(j, p) for j in range(m.nj) for p in range(nxt[j] + 1, len(m.jobs[j]))]
            if not c:
                return None
            j, p = c[a % len(c)]
            op = self.op_of(j, p)
            mm = op.machines[b % len(op.machines)]
            return (lambda: d.dispatch(op, mm)), f"dispatch(op({j},{p}) ahead of next {nxt[j]}, m={mm})"
        if kind == "reassign_ineligible":
            # a scheduled operation taken from the schedule (or the history) is moved to a machine it is not
            # eligible for through its public attribute: refused, and it stays where it was
            if not m.hist:
                return None
            h = m.hist[a % len(m.hist)]
            so = next((s for s in d.schedule.schedule[h[2]] if self.jp(s.operation) == (h[0], h[1])), None)
            if so is None:
                return None
            c = [x for x in range(-2, m.nm + 2) if x not in so.operation.machines]
            mm = self._np(a, b, c[b % len(c)])

            def thunk():
                so.machine_id = mm

            return thunk, f"scheduled op({h[0]},{h[1]}).machine_id = {mm!r} (ineligible)"
        if kind == "already_scheduled":
            c = m.scheduled()
            if not c:
                return None
            j, p = c[a % len(c)]
            op = self.op_of(j, p)
            mm = op.machines[b % len(op.machines)]
            return (lambda: d.dispatch(op, mm)), f"dispatch(already scheduled op({j},{p}), m={mm})"
        ready = m.ready()
        if not ready:
            return None
        j, p = ready[a % len(ready)]
        op = self.op_of(j, p)
        if kind == "ineligible_machine":
            c = [x for x in range(m.nm) if x not in op.machines]
            if not c:
                return None
            mm = self._np(a, b, c[b % len(c)])
            return (lambda: d.dispatch(op, mm)), f"dispatch(op({j},{p}), ineligible m={mm!r})"
        if kind == "machine_too_large":
            mm = self._np(a, b, m.nm + (b % 3))
            return (lambda: d.dispatch(op, mm)), f"dispatch(op({j},{p}), m={mm!r} >= M)"
        if kind == "machine_too_negative":
            # -1..-M index python lists from the end; all are ineligible ids
            mm = self._np(a, b, -1 - (b % (m.nm + 2)))
            return (lambda: d.dispatch(op, mm)), f"dispatch(op({j},{p}), m={mm!r} < 0)"
        if kind == "none_on_flexible":
            c = [(jj, pp) for jj, pp in ready if len(m.machines(jj, pp)) > 1]
            if not c:
                return None
            j, p = c[a % len(c)]
            op = self.op_of(j, p)
            return (lambda: d.dispatch(op)), f"dispatch(flexible op({j},{p}), machine_id=None)"
        raise ValueError(kind)

    # ------------------------------------------------------------- snapshot
    def real_machine_lists(self):
        return [
            [(so.operation.job_id, so.operation.position_in_job, so.start_time, so.machine_id) for so in ml]
            for ml in self.disp.schedule.schedule
        ]


def gen_dispatch_ops(rng, n_ops, *, p_query=0.0, p_invalid=0.0, p_reset=0.0, extra=None, src_av=0.5,
                     episodes=1, stop_early=0.1, queries=None, p_fork=0.0, p_solve_rest=0.0):
    """Generic op-list generator for dispatcher histories.  `extra`:
    list of (probability, factory(rng)->op)."""
    ops = []
    queries = queries or (QUERIES0 + QUERIES1)
    for ep in range(episodes):
        k = 0
        target = n_ops if rng.random() > stop_early else rng.randint(0, n_ops)
        guard = 0
        while k < target and guard < 6 * n_ops + 10:
            guard += 1
            r = rng.random()
            if r < p_query:
                ops.append(["query", [[rng.choice(queries), rng.randrange(64)] for _ in range(rng.randint(1, 8))]])
                continue
            r -= p_query
            if r < p_invalid:
                ops.append(["invalid", rng.choice(INVALID_KINDS), rng.randrange(64), rng.randrange(64)])
                continue
            r -= p_invalid
            if r < p_reset:
                ops.append(["reset"])
                k = 0
                continue
            r -= p_reset
            if r < p_fork:
                ops.append(["fork"])
                continue
            r -= p_fork
            if r < p_solve_rest and k > 0:
                ops.append(["solve_rest", rng.choice(["shortest_processing_time", "most_work_remaining", "first_come_first_served", "most_operations_remaining"]), rng.choice(["first", "random"])])
                k = target
                continue
            r -= p_solve_rest
            done = False
            for pe, fac in (extra or []):
                if r < pe:
                    ops.append(fac(rng))
                    done = True
                    break
                r -= pe
            if done:
                continue
            ops.append(["dispatch", rng.randrange(64), rng.randrange(64), 1 if rng.random() < src_av else 0])
            k += 1
        if ep + 1 < episodes:
            ops.append(["reset"])
    return ops


# ---------------------------------------------------------------------------
# queries: normalisation of real answers and the model's expected answers
# ---------------------------------------------------------------------------

def norm_query(w, name, res):
    """Real answer -> comparable plain value (lists keep their order)."""
    if name == "current_time":
        return res
    if name in ("available_operations", "raw_ready_operations", "unscheduled_operations",
                "scheduled_operations", "uncompleted_operations"):
        return [w.jp(o) for o in res]
    if name == "completed_operations":
        return sorted(w.jp(o) for o in res)
    if name in ("available_machines", "available_jobs"):
        return [int(x) for x in res]
    if name == "ongoing_operations":
        return [(so.operation.job_id, so.operation.position_in_job, so.start_time, so.machine_id) for so in res]
    return res


def expected_query(w, name):
    """Model's answer as a sorted list (multiset), or UNDEFINED."""
    m = w.model
    if name == "raw_ready_operations":
        return sorted(m.ready())
    if name == "unscheduled_operations":
        return sorted(m.unscheduled())
    if name == "scheduled_operations":
        return sorted(m.scheduled())
    av = m.available()
    if av is UNDEFINED:
        return UNDEFINED
    now = m.min_start(av)
    if name == "current_time":
        return now
    if name == "available_operations":
        return sorted(av)
    if name == "available_machines":
        return sorted({x for j, p in av for x in m.machines(j, p)})
    if name == "available_jobs":
        return sorted({j for j, _ in av})
    if name == "completed_operations":
        return sorted(m.completed(now))
    if name == "uncompleted_operations":
        return sorted(m.unscheduled() + [(h[0], h[1]) for h in m.ongoing(now)])
    if name == "ongoing_operations":
        return sorted((h[0], h[1], h[3], h[2]) for h in m.ongoing(now))
    raise ValueError(name)


class Hooks:
    """Override what a property needs."""

    def after(self, w, i, kind, info):
        pass

    def on_query(self, w, name, arg):
        """Default: call the query, ignore the answer."""
        if name in QUERIES0:
            res = w.call_query(name)
            if hasattr(res, "__iter__"):
                for _ in res:  # a user reads what they asked for
                    pass
        elif name in ("min_start_time", "start_time", "earliest_start_time"):
            w.arg_query(name, arg)

    def on_invalid(self, w, kind, thunk, desc):
        """Default: perform it; it must raise, else the run leaves this
        property's jurisdiction (C09 owns rejected requests)."""
        try:
            thunk()
        except Exception:  # noqa: BLE001 - any exception type is a rejection
            return "rejected"
        raise Foreign("C09", f"invalid request accepted: {desc}")

    def on_reset(self, w):
        w.do_reset()

    def on_fork(self, w):
        """Called after the world switched to a deep copy of its dispatcher: re-bind observer references."""

    def extra(self, w, i, op):
        raise ValueError(f"unknown op {op}")


def run_ops(w, ops, hooks):
    ctx = w.ctx
    for i, op in enumerate(ops):
        ctx.step = i
        kind = op[0]
        info = None
        if kind == "dispatch":
            r = w.resolve_dispatch(op[1], op[2], op[3])
            if r is None:
                ctx.event(i, kind, "noop")
                ctx.count("dispatch_noop")
                continue
            o, mm = r
            use_none = len(op) > 4 and op[4] and len(o.machines) == 1
            se = w.do_dispatch(o, mm, use_none=use_none)
            info = (o, mm, se)
            ctx.count("dispatch")
            ctx.event(i, kind, (o.job_id, o.position_in_job, mm), se, h64(w.abstract_state()))
        elif kind == "query":
            for name, arg in op[1]:
                hooks.on_query(w, name, arg)
                ctx.count("query")
            ctx.event(i, kind, [q[0] for q in op[1]])
        elif kind == "invalid":
            built = w.invalid_request(op[1], op[2], op[3])
            if built is None:
                ctx.event(i, kind, op[1], "impossible")
                continue
            thunk, desc = built
            out = hooks.on_invalid(w, op[1], thunk, desc)
            ctx.fault("invalid_request:" + op[1])
            ctx.event(i, kind, desc, out)
            info = desc
        elif kind == "reset":
            hooks.on_reset(w)
            ctx.count("reset")
            ctx.event(i, kind, h64(w.abstract_state()))
        elif kind == "solve_rest":
            n_new = w.solve_rest(op[1], op[2])
            ctx.count("solve_rest")
            ctx.count("dispatch", n_new)
            ctx.event(i, kind, op[1], n_new, h64(w.abstract_state()))
        elif kind == "fork":
            w.fork()
            hooks.on_fork(w)
            ctx.count("fork")
            ctx.event(i, kind)
        else:
            info = hooks.extra(w, i, op)
            ctx.count(kind)
            ctx.event(i, kind, op[1:], info if isinstance(info, (str, int, list, tuple, type(None))) else None)
        w.mark_state()
        hooks.after(w, i, kind, info)
