"""Determinism self-test: every seed twice, fresh interpreters, two hash seeds,
1 and 16 workers; event-log digests must be identical."""

from __future__ import annotations

import concurrent.futures as cf
import glob
import json
import multiprocessing as mp
import os
import subprocess
import sys

from . import runner

VERIF = runner.VERIF


def all_props():
    return sorted(os.path.basename(p)[:-3].upper() for p in glob.glob(os.path.join(VERIF, "sim", "props", "c[0-9]*.py")))


def _one(args):
    pid, tier, vs, idx = args
    mod = runner.load_prop(pid)
    seed = runner.run_seed(pid, tier, vs, idx)
    case = mod.generate(seed, tier)
    case["seed"] = seed
    case["index"] = idx
    res = runner.run_case(mod, case, runner.load_known())
    return idx, res["digest"] + ":" + res["status"]


def digests(pid, n, workers, tier="quick", verif_seed=0):
    runner.setup_imports()
    args = [(pid, tier, verif_seed, i) for i in range(n)]
    if workers <= 1:
        return dict(_one(a) for a in args)
    with cf.ProcessPoolExecutor(max_workers=workers, mp_context=mp.get_context("fork")) as ex:
        return dict(ex.map(_one, args, chunksize=max(1, n // (workers * 2))))


def determinism(n, props):
    props = props or all_props()
    bad = 0
    for pid in props:
        outs = []
        for hs, workers in (("0", 1), ("4242", 16), ("777", 3)):
            env = dict(os.environ, PYTHONHASHSEED=hs)
            p = subprocess.run([sys.executable, os.path.join(VERIF, "run.py"), "digests", pid, "--n", str(n), "--workers", str(workers)],
                               capture_output=True, text=True, env=env, timeout=1500)
            line = [l for l in p.stdout.splitlines() if l.startswith("{")]
            if p.returncode != 0 or not line:
                print(f"HARNESS-ERROR: digests {pid} hashseed={hs} workers={workers} failed:\n{p.stdout[-2000:]}{p.stderr[-2000:]}")
                bad += 1
                outs = None
                break
            outs.append(json.loads(line[-1]))
        if outs is None:
            continue
        diff = [i for i in outs[0] if not (outs[0][i] == outs[1].get(i) == outs[2].get(i))]
        if diff:
            print(f"HARNESS-ERROR: {pid}: digests differ between interpreters for indices {diff[:10]}")
            bad += 1
        else:
            print(f"selftest-determinism {pid}: {n} seeds x 3 fresh interpreters (PYTHONHASHSEED 0/4242/777, 1/16/3 workers) identical")
    return 2 if bad else 0
