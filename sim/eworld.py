"""Environment world: a real SingleJobShopGraphEnv / MultiJobShopGraphEnv
stepped in lock-step with the reference model."""

from __future__ import annotations

import numpy as np

from .core import owner_of_exception, short_exc
from .dworld import BUILDERS, FEATURE_TYPES, LEVELS, graph_builder, observe_dispatcher, observe_observer, _arr
from .instances import build, as_tuple, gen_instance, n_ops
from .model import Model, graph_spec, UNDEFINED
from .util import Foreign, h64

ENV_INVALID = ["finished_job", "minus1_on_flexible", "ineligible_machine", "job_out_of_range", "machine_out_of_range"]


# --------------------------------------------------------------- generation

def gen_features(rng, allow_empty=True):
    r = rng.random()
    if r < 0.05 and allow_empty:
        return []
    if r < 0.3:
        types = list(FEATURE_TYPES)
    else:
        types = [t for t in FEATURE_TYPES if rng.random() < 0.4] or [rng.choice(FEATURE_TYPES)]
    rng.shuffle(types)
    out = []
    for t in types:
        lv = LEVELS[t]
        ft = None if rng.random() < 0.5 else ([x for x in lv if rng.random() < 0.6] or [rng.choice(lv)])
        out.append({"t": t, "ft": ft, "how": rng.choice(["str", "enum", "class"])})
    return out


def gen_env_cfg(rng, *, multi=None, big=False, padding=None, positive=True, huge=0.0):
    if multi is None:
        multi = rng.random() < 0.35
    cfg = {
        "env": "multi" if multi else "single",
        "builder": rng.choice(BUILDERS),
        "features": gen_features(rng),
        "reward": rng.choice(["makespan", "idle"]),
        "reward_by_default": rng.random() < 0.5,
        "set_reward_before_reset": rng.random() < 0.2,
        "render": rng.random() < 0.08,  # makespan reward through the environment's default argument (a shared object)
        "updater": None if rng.random() < 0.5 else {"rm": rng.random() < 0.5, "rj": rng.random() < 0.5},
        "filter": rng.choice(["default", "dominated", "none"]),
        "use_padding": (rng.random() < 0.8) if padding is None else padding,
    }
    if multi:
        jlo = rng.randint(1, 3)
        mlo = rng.randint(1, 3)
        mhi = mlo + rng.randint(0, 2)
        mpo_hi = rng.randint(1, mlo)
        cfg["gen"] = {
            "num_jobs": [jlo, jlo + rng.randint(0, 2)],
            "num_machines": [mlo, mhi],
            "duration_range": [1, rng.randint(1, 9)],
            "allow_recirculation": rng.random() < 0.3,
            # a range, or one int k: exactly k eligible machines per operation
            "machines_per_operation": ([rng.randint(1, mpo_hi), mpo_hi] if rng.random() < 0.7 else mpo_hi) if rng.random() < 0.4 else 1,
            "seed": rng.randrange(1 << 20) if rng.random() < 0.7 else None,
            # the generator's own iteration protocol (a limit for `for instance in generator`) is none of the
            # environment's business: reset() must build an episode every time
            "iteration_limit": rng.randint(0, 2) if rng.random() < 0.25 else None,
        }
        # recirculating / flexible generators overflow the padded spaces
        # (known finding F10); keep them a minority so that most multi-env
        # runs make progress
        if edge_count_varies(cfg) and rng.random() < 0.7:
            cfg["gen"]["machines_per_operation"] = 1
            cfg["gen"]["allow_recirculation"] = False
    else:
        cfg["instance"] = gen_instance(rng, max_jobs=5 if big else 4, max_machines=4, max_ops=5 if big else 4,
                                       positive=True if positive else None, huge=huge)
    return cfg


def gen_env_ops(rng, n, *, episodes=None, p_invalid=0.0, p_reset=0.0):
    ops = []
    episodes = episodes or rng.randint(1, 3)
    for ep in range(episodes):
        ops.append(["env_reset"])
        target = n if rng.random() > 0.25 else rng.randint(0, n)
        k = 0
        while k < target:
            r = rng.random()
            if r < p_invalid:
                ops.append(["env_invalid", rng.choice(ENV_INVALID), rng.randrange(64), rng.randrange(64)])
                continue
            if r < p_invalid + p_reset:
                ops.append(["env_reset"])
                k = 0
                continue
            ops.append(["env_step", rng.randrange(64), rng.randrange(64), int(rng.random() < 0.3), int(rng.random() < 0.6), rng.randrange(4)])
            k += 1
    return ops


def gen_env_case(rng, prop, *, big=False, rewards_focus=False, multi=None, faults=True, padding=None):
    cfg = gen_env_cfg(rng, multi=multi, big=big, padding=padding, huge=0.1 if rewards_focus else 0.0)
    n = n_ops(cfg["instance"]) if cfg["env"] == "single" else cfg["gen"]["num_jobs"][1] * cfg["gen"]["num_machines"][1]
    faulty = faults and rng.random() < 0.5
    ops = gen_env_ops(rng, n, p_invalid=0.1 if faulty else 0.0, p_reset=0.03 if faulty else 0.0)
    return {"prop": prop, "kind": "env", "cfg": cfg, "ops": ops}


def edge_count_varies(cfg):
    """True iff two instances of the configured generator with the same
    requested (jobs, machines) size can differ in the number of machine ids
    they use or in their edge count (recirculation or flexible operations):
    exactly the configurations in which one sampled max-size instance is not
    an upper bound for the observation space (known finding F10)."""
    if cfg["env"] != "multi":
        return False
    g = cfg["gen"]
    mpo = g["machines_per_operation"]
    hi = mpo if isinstance(mpo, int) else mpo[1]
    return bool(g["allow_recirculation"] or hi > 1)


# ------------------------------------------------------------- construction

def feature_configs(features):
    from job_shop_lib.dispatching import DispatcherObserverConfig
    from job_shop_lib.dispatching.feature_observers import FeatureObserverType, FeatureType
    from job_shop_lib.dispatching import feature_observers as fo

    classes = {
        "is_ready": fo.IsReadyObserver, "earliest_start_time": fo.EarliestStartTimeObserver,
        "duration": fo.DurationObserver, "is_scheduled": fo.IsScheduledObserver,
        "position_in_job": fo.PositionInJobObserver, "remaining_operations": fo.RemainingOperationsObserver,
        "is_completed": fo.IsCompletedObserver,
    }
    out = []
    for f in features:
        kw = {}
        if f.get("ft") is not None:
            kw["feature_types"] = [FeatureType(x) for x in f["ft"]]
        how = f.get("how", "str")
        ct = f["t"] if how == "str" else (FeatureObserverType(f["t"]) if how == "enum" else classes[f["t"]])
        out.append(DispatcherObserverConfig(ct, kwargs=kw))
    return out


def env_kwargs(cfg):
    from job_shop_lib.dispatching import DispatcherObserverConfig, filter_dominated_operations
    from job_shop_lib.graphs.graph_updaters import ResidualGraphUpdater
    from job_shop_lib.reinforcement_learning import MakespanReward, IdleTimeReward

    kw = {
        "feature_observer_configs": feature_configs(cfg["features"]),
        "use_padding": cfg["use_padding"],
    }
    if not (cfg["reward"] == "makespan" and cfg.get("reward_by_default")):
        kw["reward_function_config"] = DispatcherObserverConfig(class_type=MakespanReward if cfg["reward"] == "makespan" else IdleTimeReward)
    if cfg.get("updater") is not None:
        kw["graph_updater_config"] = DispatcherObserverConfig(
            class_type=ResidualGraphUpdater,
            kwargs={"remove_completed_machine_nodes": cfg["updater"]["rm"], "remove_completed_job_nodes": cfg["updater"]["rj"]},
        )
    if cfg["filter"] == "dominated":
        kw["ready_operations_filter"] = filter_dominated_operations
    elif cfg["filter"] == "none":
        kw["ready_operations_filter"] = None
    return kw


def make_generator(g):
    from job_shop_lib.generation import GeneralInstanceGenerator

    mpo = g["machines_per_operation"]
    return GeneralInstanceGenerator(
        num_jobs=tuple(g["num_jobs"]), num_machines=tuple(g["num_machines"]),
        duration_range=tuple(g["duration_range"]), allow_recirculation=g["allow_recirculation"],
        machines_per_operation=tuple(mpo) if isinstance(mpo, list) else mpo, seed=g["seed"],
        iteration_limit=g.get("iteration_limit"),
    )


class EnvWorld:
    def __init__(self, cfg, ctx, owner="C18"):
        from job_shop_lib.reinforcement_learning import SingleJobShopGraphEnv, MultiJobShopGraphEnv

        self.cfg, self.ctx = cfg, ctx
        self.multi = cfg["env"] == "multi"
        self.builder = graph_builder(cfg["builder"])
        self.kw = env_kwargs(cfg)
        self.filter_names = [] if cfg["filter"] == "none" else ["dominated_operations"]
        self.model = None
        self.last = None  # last (obs, reward, done, truncated) seen
        self.episodes = 0
        self.shapes = None
        self.dead = False
        try:
            if self.multi:
                self.generator = make_generator(cfg["gen"])
                if cfg.get("render"):
                    self.render_config = {"gif_config": {"fps": 2}, "partial_gantt_chart_plotter_config": {"cmap": "tab10"}}
                    self.kw = dict(self.kw, render_mode="save_gif", render_config=self.render_config)
                self.env = MultiJobShopGraphEnv(instance_generator=self.generator, graph_initializer=self.builder, **self.kw)
            else:
                self.inst = build(cfg["instance"])
                self.env = SingleJobShopGraphEnv(job_shop_graph=self.builder(self.inst), **self.kw)
                self.bind_model()
        except Exception as e:  # noqa: BLE001
            own = "C18" if ctx.prop == "C18" else owner_of_exception(e, owner)
            self.lib_error(own, "env_constructor_raised", f"constructing the {cfg['env']} env raised {short_exc(e)}", exc=type(e).__name__)
            self.dead = True

    # ---------------------------------------------------------------- plumbing
    def lib_error(self, owner, oracle, message, **keys):
        if owner == self.ctx.prop:
            return self.ctx.fail(oracle, message, **keys)
        raise Foreign(owner, message)

    @property
    def single(self):
        return self.env.single_job_shop_graph_env if self.multi else self.env

    @property
    def disp(self):
        return self.single.dispatcher

    def bind_model(self):
        inst = self.single.instance
        self.jobs = tuple(tuple((tuple(op.machines), op.duration) for op in job) for job in inst.jobs)
        self.model = Model(self.jobs, self.filter_names)
        self.inst_hash = h64(self.jobs)

    def mark_state(self):
        d = self.disp
        self.ctx.states.add(h64((self.inst_hash, tuple(d.job_next_operation_index), tuple(d.machine_next_available_time), tuple(d.job_next_available_time))))

    # --------------------------------------------------------------------- ops
    def reset(self):
        try:
            obs, info = self.env.reset()
        except Exception as e:  # noqa: BLE001
            own = "C18" if self.ctx.prop == "C18" else owner_of_exception(e, "C18")  # for C18 the environment is the unit under test
            import traceback

            where = "add_padding" if any(f.name == "add_padding" for f in traceback.extract_tb(e.__traceback__)) else "other"
            self.lib_error(own, "env_reset_raised", f"{self.cfg['env']} env.reset() raised {short_exc(e)}", exc=type(e).__name__, where=where,
                           edge_count_varies=edge_count_varies(self.cfg))
            self.dead = True
            return None
        self.episodes += 1
        self.bind_model() if self.multi else self.model.reset()
        self.ctx.fault("restart") if self.episodes > 1 else None
        if self.episodes == 2:
            self.ctx.probe("second_episode")
        self.last = (obs, 0, False, False)
        return obs, info

    def legal_actions(self):
        """All legal (job, machine) decisions incl. (job, -1) for single-machine ops."""
        out = []
        for j, p in self.model.ready():
            ms = self.model.machines(j, p)
            for m in ms:
                out.append((j, m))
            if len(ms) == 1:
                out.append((j, -1))
        return out

    def resolve_step(self, a, b, minus1, from_available):
        m = self.model
        if m.is_complete():
            return None
        ready = m.ready()
        if from_available:
            av = [(o.job_id, o.position_in_job) for o in self.disp.available_operations()]
            ready = [x for x in av if x in ready] or ready
        j, p = ready[a % len(ready)]
        ms = m.machines(j, p)
        mm = ms[b % len(ms)]
        act = (j, -1) if (minus1 and len(ms) == 1) else (j, mm)
        return (j, p, mm, act)

    def step(self, j, p, mm, act, form=0):
        # the same decision in the forms an agent may hand over: tuple of ints, list, numpy array, numpy scalars
        if form == 1:
            act = [int(act[0]), int(act[1])]
        elif form == 2:
            act = np.array([act[0], act[1]], dtype=np.int64)
        elif form == 3:
            act = (np.int32(act[0]), np.int64(act[1]))
        try:
            out = self.env.step(act)
        except Exception as e:  # noqa: BLE001
            own = "C18" if self.ctx.prop == "C18" else owner_of_exception(e, "C18")
            self.lib_error(own, "env_step_raised", f"env.step({act}) raised {short_exc(e)} for a legal action", exc=type(e).__name__)
            self.dead = True
            return None
        se = self.model.dispatch(j, p, mm)
        self.ctx.sim_time = max(self.ctx.sim_time, se[1])
        obs, reward, done, truncated, info = out
        self.last = (obs, reward, done, truncated)
        return out

    def invalid_action(self, kind, a, b):
        r = self._invalid_action(kind, a, b)
        if r is not None and (a + 3 * b) % 4 == 0:  # the same decision as numpy integers
            act, desc = r
            r = ((np.int64(act[0]), np.int64(act[1])), desc + " [numpy ints]")
        return r

    def _invalid_action(self, kind, a, b):
        m = self.model
        nxt = m.nxt
        if kind == "finished_job":
            c = [j for j in range(m.nj) if nxt[j] >= len(m.jobs[j])]
            if not c:
                return None
            j = c[a % len(c)]
            return (j, -1 if b % 2 else b % m.nm), f"step(job {j} which has no operations left)"
        ready = m.ready()
        if not ready:
            return None
        if kind == "minus1_on_flexible":
            c = [(j, p) for j, p in ready if len(m.machines(j, p)) > 1]
            if not c:
                return None
            j, p = c[a % len(c)]
            return (j, -1), f"step(job {j}, -1) on a flexible operation"
        j, p = ready[a % len(ready)]
        if kind == "ineligible_machine":
            c = [x for x in range(m.nm) if x not in m.machines(j, p)]
            if not c:
                return None
            return (j, c[b % len(c)]), f"step(job {j}, ineligible machine {c[b % len(c)]})"
        if kind == "job_out_of_range":
            jj = m.nj + (a % 3)
            return (jj, -1), f"step(job {jj} >= J)"
        if kind == "machine_out_of_range":
            mm = m.nm + (b % 3) if b % 2 else -2 - (b % (m.nm + 1))
            return (j, mm), f"step(job {j}, machine {mm} out of range)"
        raise ValueError(kind)

    # ---------------------------------------------------------------- observe
    def observe(self):
        """Everything a user can see of the environment (C09 / C12)."""
        s = self.single
        out = {"dispatcher": observe_dispatcher(s.dispatcher)}
        out["graph"] = observe_observer(s.graph_updater)
        out["reward"] = observe_observer(s.reward_function)
        out["composite"] = observe_observer(s.composite_observer)
        obs = self.env.single_job_shop_graph_env.get_observation() if self.multi else self.env.get_observation()
        out["observation"] = {k: _arr(np.asarray(v)) for k, v in obs.items()}
        return out


def obs_plain(obs):
    return {k: _arr(np.asarray(v)) for k, v in obs.items()}


# ----------------------------------------------------------------- oracles

def contract_oracles(w, obs, when):
    """C18: observation in space / mirrors graph."""
    ctx = w.ctx
    env, s = w.env, w.single
    space = env.observation_space
    keys = set(obs.keys())
    want_keys = set(space.spaces.keys())
    ctx.check(keys == want_keys, "observation_keys", lambda: f"{when}: observation keys {sorted(keys)} != space keys {sorted(want_keys)}")
    padded = w.cfg["use_padding"]
    shapes = {k: tuple(np.asarray(v).shape) for k, v in obs.items()}
    g = s.job_shop_graph
    n_nodes = len(g.removed_nodes)
    edges = [(int(u), int(v)) for u, v in g.graph.edges()]
    if padded:
        if w.shapes is None:
            w.shapes = shapes
        ctx.check(shapes == w.shapes, "observation_shapes_fixed", lambda: f"{when}: shapes {shapes} differ from first observation's {w.shapes}")
        for k in keys & want_keys:
            sp = space[k]
            ctx.check(shapes[k] == tuple(sp.shape), "observation_in_space", lambda: f"{when}: {k} has shape {shapes[k]}, space declares {tuple(sp.shape)}", key=k)
        try:
            ok = space.contains(obs)
        except Exception as e:  # noqa: BLE001
            ok = False
        ctx.check(ok, "observation_in_space", lambda: f"{when}: observation_space.contains(obs) is False (shapes {shapes})", key="contains")
    if when.startswith("reset"):
        # a new episode: nothing is scheduled, so the current graph is the graph as built for the instance
        want_nodes, want_edges = graph_spec(w.jobs, w.cfg["builder"])
        ctx.check(n_nodes == len(want_nodes) and not any(bool(x) for x in g.removed_nodes) and sorted(edges) == sorted(want_edges), "reset_graph_is_the_built_graph",
                  lambda: f"{when}: the episode starts with {n_nodes} nodes ({sum(bool(x) for x in g.removed_nodes)} removed) and {len(edges)} edges; the {w.cfg['builder']} graph of the instance has {len(want_nodes)} nodes and {len(want_edges)} edges")
    # removed-node mask
    rn = np.asarray(obs["removed_nodes"])
    real = [bool(x) for x in rn[:n_nodes].tolist()]
    ctx.check(real == [bool(x) for x in g.removed_nodes], "removed_mask_equals_graph", lambda: f"{when}: removed_nodes {real} != graph mask {list(g.removed_nodes)}")
    if len(rn) > n_nodes:
        ctx.check(bool(np.all(rn[n_nodes:] == True)), "padding_values", lambda: f"{when}: removed_nodes padding is {rn[n_nodes:].tolist()}, expected all True", key="removed_nodes")  # noqa: E712
        ctx.probe("padded_removed_nodes")
    ei = np.asarray(obs["edge_index"])
    ne = len(edges)
    if ei.ndim != 2 or (ei.size and ei.shape[0] != 2):
        if not (ne == 0 and ei.size == 0):
            ctx.fail("edge_index_equals_graph", f"{when}: edge_index has shape {ei.shape}")
    else:
        cols = [tuple(int(x) for x in ei[:, c]) for c in range(min(ne, ei.shape[1]))] if ei.size else []
        ctx.check(ei.shape[1] >= ne if ei.size else ne == 0, "edge_index_equals_graph", lambda: f"{when}: edge_index has {ei.shape[1] if ei.size else 0} columns, graph has {ne} edges")
        ctx.check(sorted(cols) == sorted(edges), "edge_index_equals_graph", lambda: f"{when}: first {ne} edge_index columns {sorted(cols)[:6]}... != graph edges {sorted(edges)[:6]}...")
        if ei.size and ei.shape[1] > ne:
            ctx.check(bool(np.all(ei[:, ne:] == -1)), "padding_values", lambda: f"{when}: edge_index padding is not all -1: {ei[:, ne:].tolist()}", key="edge_index")
            ctx.probe("padded_edge_index")
        if not padded:
            ctx.check((ei.shape[1] if ei.size else 0) == ne, "edge_index_equals_graph", lambda: f"{when}: unpadded edge_index has {ei.shape[1]} columns for {ne} edges")
    # feature matrices = composite features (+ padding rows of -1 in the multi env)
    for ft, mat in s.composite_observer.features.items():
        k = ft.value
        if k not in obs:
            continue
        o = np.asarray(obs[k])
        r = mat.shape[0]
        ctx.check(o.shape[1:] == mat.shape[1:] and o.shape[0] >= r and np.array_equal(o[:r], mat, equal_nan=True), "features_equal_composite",
                  lambda: f"{when}: obs[{k}] real part differs from composite features", key=k)
        if o.shape[0] > r:
            ctx.check(bool(np.all(o[r:] == -1)), "padding_values", lambda: f"{when}: obs[{k}] padding rows are not -1", key=k)
            ctx.probe("padded_features")


def action_space_oracle(w, when):
    ctx = w.ctx
    space = w.env.action_space
    for j, mm in w.legal_actions():
        a = np.array([j, mm], dtype=space.dtype)
        ctx.check(bool(space.contains(a)), "legal_action_in_action_space",
                  lambda: f"{when}: legal decision (job {j}, machine {mm}) is not in action_space {space} (instance has {w.model.nm} machines)",
                  space_from_sample_too_small=edge_count_varies(w.cfg))


def multi_config_oracle(w, when):
    """After every reset of the multi env the inner env carries the constructor's configuration."""
    ctx, cfg, s = w.ctx, w.cfg, w.single
    from job_shop_lib.reinforcement_learning import MakespanReward, IdleTimeReward
    from job_shop_lib.graphs.graph_updaters import ResidualGraphUpdater
    from job_shop_lib.dispatching import filter_dominated_operations

    want_reward = MakespanReward if cfg["reward"] == "makespan" else IdleTimeReward
    ctx.check(type(s.reward_function) is want_reward, "multi_env_keeps_config", lambda: f"{when}: reward function is {type(s.reward_function).__name__}, constructed with {want_reward.__name__}", field="reward")
    ctx.check(type(s.graph_updater) is ResidualGraphUpdater, "multi_env_keeps_config", lambda: f"{when}: graph updater is {type(s.graph_updater).__name__}", field="updater_class")
    up = cfg.get("updater") or {"rm": True, "rj": True}
    got = {"rm": s.graph_updater.remove_completed_machine_nodes, "rj": s.graph_updater.remove_completed_job_nodes}
    ctx.check(got == up, "multi_env_keeps_config", lambda: f"{when}: graph updater options {got}, constructed with {up}", field="updater_kwargs")
    want_filter = None if cfg["filter"] == "none" else filter_dominated_operations
    ctx.check(s.dispatcher.ready_operations_filter is want_filter, "multi_env_keeps_config", lambda: f"{when}: ready_operations_filter is {s.dispatcher.ready_operations_filter}, constructed with {want_filter}", field="filter")
    ctx.check(s.use_padding == cfg["use_padding"], "multi_env_keeps_config", lambda: f"{when}: use_padding {s.use_padding} != {cfg['use_padding']}", field="use_padding")
    nodes, edges = graph_spec(w.jobs, cfg["builder"])
    g = s.job_shop_graph  # right after reset(): the episode's full graph
    ctx.check(len(g.nodes) == len(nodes) and g.graph.number_of_edges() == len(edges), "multi_env_keeps_config",
              lambda: f"{when}: episode graph has {len(g.nodes)} nodes / {g.graph.number_of_edges()} edges, builder {cfg['builder']} gives {len(nodes)} / {len(edges)}", field="graph_initializer")
    want_cols = []
    for f in cfg["features"]:
        want_cols.append(f["t"])
    got_parts = [type(p).__name__ for p in s.composite_observer.feature_observers]
    ctx.check(len(got_parts) == len(want_cols), "multi_env_keeps_config", lambda: f"{when}: feature observers {got_parts} for configs {want_cols}", field="features")
    if cfg.get("render"):
        import copy
        want_rc = {"gif_config": {"fps": 2}, "partial_gantt_chart_plotter_config": {"cmap": "tab10"}}
        ctx.check(w.env.render_config == want_rc and dict(s.gantt_chart_creator.gif_config) == want_rc["gif_config"], "multi_env_keeps_config",
                  lambda: f"{when}: render configuration is {w.env.render_config} / gif_config {dict(s.gantt_chart_creator.gif_config)}, constructed with {want_rc}", field="render_config")
    gen = cfg["gen"]
    nj, nm = len(w.jobs), w.model.nm
    ctx.check(gen["num_jobs"][0] <= nj <= gen["num_jobs"][1], "multi_env_instance_in_ranges", lambda: f"{when}: instance has {nj} jobs, generator range {gen['num_jobs']}")
    mpo = gen["machines_per_operation"]
    lo, hi = (mpo, mpo) if isinstance(mpo, int) else mpo
    bad = [(j, p, list(ms)) for j, job in enumerate(w.jobs) for p, (ms, _) in enumerate(job) if not (lo <= len(ms) <= hi) or len(set(ms)) != len(ms)]
    ctx.check(not bad, "multi_env_instance_in_ranges", lambda: f"{when}: operations {bad[:4]} do not have between {lo} and {hi} distinct eligible machines (machines_per_operation={mpo})")
    dlo, dhi = gen["duration_range"]
    badd = [(j, p, d) for j, job in enumerate(w.jobs) for p, (_, d) in enumerate(job) if not (dlo <= d <= dhi)]
    ctx.check(not badd, "multi_env_instance_in_ranges", lambda: f"{when}: durations {badd[:4]} outside the generator's range {gen['duration_range']}")
    lens = {len(job) for job in w.jobs}
    ctx.check(len(lens) == 1 and gen["num_machines"][0] <= next(iter(lens)) <= gen["num_machines"][1], "multi_env_instance_in_ranges",
              lambda: f"{when}: jobs have {sorted(lens)} operations, generator machine range {gen['num_machines']}")


def reward_oracles(w, reward, when):
    ctx, m, s = w.ctx, w.model, w.single
    rf = s.reward_function
    r = list(rf.rewards)
    k = len(m.hist)
    name = type(rf).__name__
    ctx.check(len(r) == k, "one_reward_per_dispatch", lambda: f"{when}: {name} has {len(r)} rewards after {k} steps", reward=name)
    ctx.check(all(x <= 0 for x in r), "rewards_non_positive", lambda: f"{when}: rewards {r}", reward=name)
    total = -m.makespan() if w.cfg["reward"] == "makespan" else -m.idle_time()
    ctx.check(sum(r) == total, "reward_sum_equals_objective", lambda: f"{when}: sum(rewards) = {sum(r)} ({r}), objective {total}", reward=name)
    if reward is not None:
        # exact comparison in Python numbers (a float32 reward would compare equal to a nearby int under numpy's rules)
        ctx.check(bool(r) and float(reward) == float(r[-1]) and int(reward) == int(r[-1]), "step_reward_is_emitted_reward",
                  lambda: f"{when}: step() returned reward {reward!r}, reward function emitted {r[-1] if r else None!r}", reward=name)


def render_episode(w, ctx):
    """env.render() at the end of an episode (GIF of the finished schedule), with a tiny stub plotter, in a
    scratch directory; what it does to later episodes is judged at the next reset."""
    import os
    import shutil
    import tempfile
    import warnings
    import matplotlib.pyplot as plt

    def plot(schedule, makespan=None, available_operations=None, current_time=None):
        fig = plt.figure(figsize=(0.2, 0.2), dpi=20)
        fig.patch.set_facecolor((schedule.num_scheduled_operations / 255, 0.2, 0.2))
        return fig

    tmp = tempfile.mkdtemp(prefix="jslsim-")
    cwd = os.getcwd()
    try:
        os.chdir(tmp)
        w.single.gantt_chart_creator.partial_gantt_chart_plotter = plot
        with warnings.catch_warnings():
            warnings.simplefilter("ignore")
            w.env.render()
        ctx.probe("episode_rendered")
    except Exception as e:  # noqa: BLE001
        raise Foreign("C20", f"render() raised {short_exc(e)}")
    finally:
        os.chdir(cwd)
        plt.close("all")
        shutil.rmtree(tmp, ignore_errors=True)


def execute_env_case(case, ctx, oracles=("contract",)):
    cfg = case["cfg"]
    w = EnvWorld(cfg, ctx)
    if w.dead:
        return w
    started = False
    for i, op in enumerate(case["ops"]):
        ctx.step = i
        kind = op[0]
        if kind == "env_reset":
            if cfg.get("set_reward_before_reset") and w.multi and w.episodes == 1 and "rewards" in oracles:
                # a reward function assigned through the public setter belongs to the running episode; the next
                # reset builds the episode the constructor configured
                from job_shop_lib.reinforcement_learning import IdleTimeReward, MakespanReward

                cls = IdleTimeReward if cfg["reward"] == "makespan" else MakespanReward
                try:
                    w.env.reward_function = cls(w.disp)
                    ctx.probe("reward_function_set_through_setter")
                except Exception:  # noqa: BLE001 - e.g. the singleton guard: nothing to test then
                    pass
            out = w.reset()
            if w.dead:
                ctx.event(i, kind, "dead")
                return w
            started = True
            obs, info = out
            ctx.count("env_reset")
            ctx.event(i, kind, h64(obs_plain(obs)))
            when = f"reset #{w.episodes}"
            if "contract" in oracles:
                contract_oracles(w, obs, when)
                action_space_oracle(w, when)
                if w.multi:
                    multi_config_oracle(w, when)
            if "rewards" in oracles:
                reward_oracles(w, None, when)
        elif kind == "env_step":
            if not started:
                continue
            r = w.resolve_step(op[1], op[2], op[3], op[4] if len(op) > 4 else 0)
            if r is None:
                ctx.event(i, kind, "noop")
                continue
            j, p, mm, act = r
            out = w.step(j, p, mm, act, op[5] if len(op) > 5 else 0)
            if len(op) > 5 and op[5] >= 2:
                ctx.probe("numpy_action")
            if w.dead:
                return w
            obs, reward, done, truncated, info = out
            ctx.count("env_step")
            ctx.event(i, kind, act, float(reward), bool(done), h64(obs_plain(obs)))
            when = f"step {i} action {act}"
            if act[1] == -1:
                ctx.probe("minus_one_action")
            if len(w.model.machines(j, p)) > 1:
                ctx.probe("flexible_decision")
            if "contract" in oracles:
                contract_oracles(w, obs, when)
                ctx.check(bool(done) == w.model.is_complete() == w.disp.schedule.is_complete(), "done_iff_complete",
                          lambda: f"{when}: done={done}, model complete={w.model.is_complete()}, schedule complete={w.disp.schedule.is_complete()}")
                ctx.check(truncated is False, "never_truncated", lambda: f"{when}: truncated={truncated!r}")
                action_space_oracle(w, when)
                if done:
                    ctx.probe("episode_finished")
                    if cfg.get("render") and w.multi and len(w.model.hist) <= 12:
                        render_episode(w, ctx)
            if "rewards" in oracles:
                reward_oracles(w, reward, when)
        elif kind == "env_invalid":
            if not started:
                continue
            built = w.invalid_action(op[1], op[2], op[3])
            if built is None:
                continue
            act, desc = built
            ctx.fault("invalid_request:env_" + op[1])
            try:
                w.env.step(act)
            except Exception:  # noqa: BLE001
                ctx.event(i, kind, desc, "rejected")
            else:
                raise Foreign("C09", f"invalid env action accepted: {desc}")
        else:
            raise ValueError(op)
        w.mark_state()
    return w
