"""Seeds -> forked workers -> verdicts, shrinking, replay files, evidence."""

from __future__ import annotations

import concurrent.futures as cf
import faulthandler
import importlib
import json
import multiprocessing as mp
import os
import random
import signal
import subprocess
import sys
import time
import traceback

from .core import Ctx, setup_imports
from .util import Violation, Foreign, mix, cjson, h64

VERIF = os.path.dirname(os.path.dirname(os.path.abspath(__file__)))
KNOWN_PATH = os.path.join(VERIF, "known_findings.json")
WALL_CAP = {"quick": 150.0, "thorough": 1500.0}
SET_CAP = 2_000_000  # distinct-state / distinct-case sets stop growing here (reported as a lower bound)
RUN_TIMEOUT = 60  # seconds per single run before the harness gives up (exit 2)


class HarnessTimeout(Exception):
    pass


def load_known():
    with open(KNOWN_PATH) as f:
        return json.load(f)["findings"]


def load_prop(pid):
    return importlib.import_module(f"sim.props.{pid.lower()}")


def run_seed(pid, tier, verif_seed, index):
    return mix(verif_seed, pid, tier, index)


def _alarm(signum, frame):
    raise HarnessTimeout(f"single run exceeded {RUN_TIMEOUT}s wall")


def run_case(mod, case, known, trace=False):
    """Executes one case in this process.  Returns a JSON-able result."""
    ctx = Ctx(mod.PROP, known, trace=trace)
    seed = case.get("seed", 0)
    random.seed(mix(seed, "global-random"))
    try:
        import numpy as np

        np.random.seed(mix(seed, "global-numpy") % (2 ** 32))
    except Exception:  # pragma: no cover
        pass
    res = {"status": "ok", "oracle": None, "message": None, "keys": {}}
    old = signal.signal(signal.SIGALRM, _alarm)
    signal.alarm(RUN_TIMEOUT)
    try:
        mod.execute(case, ctx)
    except Violation as v:
        res.update(status="violation", oracle=v.oracle, message=v.message, keys=v.keys)
    except Foreign as f:
        res.update(status="foreign", oracle=f.owner, message=f.message)
    except HarnessTimeout:
        raise
    except Exception as e:  # noqa: BLE001
        # An exception nobody anticipated.  If it was raised below a library
        # frame (the library, or a dependency called by it) it is the library's
        # behaviour under test and is attributed like any other library
        # exception; if it was raised by harness code it is a harness bug.
        from .core import owner_of_exception, short_exc

        tb = traceback.extract_tb(e.__traceback__)
        root = os.path.abspath(os.environ.get("JSL_REPO", "/repo"))
        last_lib = max((i for i, f in enumerate(tb) if os.path.abspath(f.filename).startswith(root + os.sep)), default=None)
        last_sim = max((i for i, f in enumerate(tb) if os.path.abspath(f.filename).startswith(VERIF + os.sep)), default=-1)
        if last_lib is None or last_lib < last_sim:
            raise
        owner = owner_of_exception(e, mod.PROP)
        where = f"{os.path.relpath(tb[last_lib].filename, root)}:{tb[last_lib].name}"
        if owner == mod.PROP:
            try:
                ctx.fail("library_call_raised", f"unanticipated {short_exc(e)} raised in {where}", exc=type(e).__name__)
            except Violation as v:
                res.update(status="violation", oracle=v.oracle, message=v.message, keys=v.keys)
        else:
            res.update(status="foreign", oracle=owner, message=f"{short_exc(e)} in {where}")
    finally:
        signal.alarm(0)
        signal.signal(signal.SIGALRM, old)
    res["step"] = ctx.step
    res["digest"] = ctx.digest()
    res["counts"] = ctx.counts
    res["probes"] = ctx.probes
    res["faults"] = ctx.faults
    res["states"] = ctx.states
    res["known_hits"] = ctx.known_hits
    res["sim_time"] = ctx.sim_time
    res["clock_s"] = ctx.clock_s
    res["nontrivial"] = bool(mod.nontrivial(case, ctx)) if res["status"] != "foreign" else False
    res["case_hash"] = h64({k: v for k, v in case.items() if k not in ("seed", "index")})
    return res


def isolated(fn, *args):
    """Runs fn(*args) in a forked child of this (pristine) process and returns
    its pickled result.  The calling process never executes library code
    itself, so every chunk / reproduction / shrink candidate starts from the
    same import-time state: process-global state a library change may
    introduce cannot leak from one chunk into the next, and a failure is a
    pure function of (chunk prefix, case)."""
    import pickle

    r, w = os.pipe()
    child = os.fork()
    if child == 0:
        code = 0
        try:
            os.close(r)
            try:
                data = pickle.dumps(("ok", fn(*args)))
            except BaseException:  # noqa: BLE001
                data = pickle.dumps(("error", traceback.format_exc()))
            with os.fdopen(w, "wb") as f:
                f.write(data)
        except BaseException:  # noqa: BLE001
            code = 1
        finally:
            os._exit(code)
    os.close(w)
    chunks = []
    with os.fdopen(r, "rb") as f:
        while True:
            b = f.read(1 << 20)
            if not b:
                break
            chunks.append(b)
    os.waitpid(child, 0)
    if not chunks:
        raise RuntimeError("isolated child died without a result")
    kind, val = pickle.loads(b"".join(chunks))
    if kind == "error":
        raise RuntimeError("isolated child raised:\n" + val)
    return val


def _worker(args):
    return isolated(_run_chunk, args)


def _run_chunk(args):
    pid, tier, verif_seed, indices, known = args
    faulthandler.enable()
    mod = load_prop(pid)
    out = {
        "n": 0, "counts": {}, "probes": {}, "faults": {}, "states": set(), "known_hits": {},
        "nontrivial": set(), "failures": [], "foreign": {}, "digests": {}, "sim_time": 0, "clock_s": 0.0,
        "fault_free": 0, "faulty": 0, "samples": [], "error": None,
    }
    for idx in indices:
        seed = run_seed(pid, tier, verif_seed, idx)
        try:
            case = mod.generate(seed, tier)
            case["seed"] = seed
            case["index"] = idx
            res = run_case(mod, case, known)
        except Exception:  # harness bug or timeout: never a verdict
            out["error"] = f"index {idx} seed {seed}:\n{traceback.format_exc()}"
            return out
        out["n"] += 1
        for key in ("counts", "probes", "faults", "known_hits"):
            for k, v in res[key].items():
                out[key][k] = out[key].get(k, 0) + v
        out["states"] |= res["states"]
        out["sim_time"] += res["sim_time"]
        out["clock_s"] += res["clock_s"]
        if res["faults"]:
            out["faulty"] += 1
        else:
            out["fault_free"] += 1
        if res["nontrivial"]:
            out["nontrivial"].add(res["case_hash"])
        if res["status"] == "violation":
            out["failures"].append((idx, seed, res["oracle"], res["message"], res["keys"], indices[0]))
        elif res["status"] == "foreign":
            out["foreign"][res["oracle"]] = out["foreign"].get(res["oracle"], 0) + 1
        if idx < 8:
            out["digests"][idx] = res["digest"]
        if idx < 3:
            out["samples"].append({k: v for k, v in case.items()})
    return out


def _merge(total, part):
    total["n"] += part["n"]
    for key in ("counts", "probes", "faults", "known_hits", "foreign"):
        for k, v in part[key].items():
            total[key][k] = total[key].get(k, 0) + v
    if len(total["states"]) < SET_CAP:
        total["states"] |= part["states"]
    if len(total["nontrivial"]) < SET_CAP:
        total["nontrivial"] |= part["nontrivial"]
    total["failures"] += part["failures"]
    total["digests"].update(part["digests"])
    total["sim_time"] += part["sim_time"]
    total["clock_s"] += part["clock_s"]
    total["fault_free"] += part["fault_free"]
    total["faulty"] += part["faulty"]
    total["samples"] += part["samples"]


def explore(pid, tier, verif_seed, n, workers, known, wall_cap):
    total = {
        "n": 0, "counts": {}, "probes": {}, "faults": {}, "states": set(), "known_hits": {},
        "nontrivial": set(), "failures": [], "foreign": {}, "digests": {}, "sim_time": 0, "clock_s": 0.0,
        "fault_free": 0, "faulty": 0, "samples": [],
    }
    t0 = time.time()
    chunk = max(1, min(400, n // (workers * 6) or 1))
    chunks = [list(range(i, min(n, i + chunk))) for i in range(0, n, chunk)]
    error = None
    capped = False
    ctxm = mp.get_context("fork")
    with cf.ProcessPoolExecutor(max_workers=workers, mp_context=ctxm) as ex:
        pending = {}
        it = iter(chunks)

        def submit_next():
            nonlocal capped
            if time.time() - t0 > wall_cap:
                capped = True
                return
            try:
                c = next(it)
            except StopIteration:
                return
            pending[ex.submit(_worker, (pid, tier, verif_seed, c, known))] = c

        for _ in range(workers * 2):
            submit_next()
        while pending:
            done, _ = cf.wait(list(pending), return_when=cf.FIRST_COMPLETED, timeout=RUN_TIMEOUT * 3)
            if not done:
                error = "no worker progress (hang)"
                for f in pending:
                    f.cancel()
                break
            for f in done:
                pending.pop(f)
                try:
                    part = f.result()
                except Exception as e:  # worker died
                    error = f"worker died: {type(e).__name__}: {e}"
                    continue
                if part["error"]:
                    error = part["error"]
                _merge(total, part)
                submit_next()
            if error:
                for f in pending:
                    f.cancel()
                break
    total["wall"] = time.time() - t0
    total["capped"] = capped
    total["error"] = error
    return total


# ---------------------------------------------------------------- shrinking

def _run_sequence(pid, cases, known):
    """Executes cases in order in THIS process; returns the last result."""
    mod = load_prop(pid)
    res = None
    for c in cases:
        res = run_case(mod, c, known)
    res["states"] = set()
    return res


def _fails_same(mod, case, oracle, known, prelude=()):
    try:
        res = isolated(_run_sequence, mod.PROP, list(prelude) + [case], known)
    except Exception:
        return None
    if res["status"] == "violation" and res["oracle"] == oracle:
        return res
    return None


def shrink(mod, case, oracle, known, budget=20.0, prelude=()):
    """ddmin over ops, then structural simplification, repeated to fixpoint.
    `prelude`: cases executed before `case` in the same process (needed only
    when the violation depends on state leaking from earlier worlds)."""
    from .instances import shrink_candidates

    t0 = time.time()
    best = case
    prelude = list(prelude)
    res = _fails_same(mod, best, oracle, known, prelude)
    if res is None:
        return case, None, prelude
    best_res = res

    def left():
        return budget - (time.time() - t0)

    # 0. minimise the prelude first (usually one earlier world suffices)
    if prelude:
        n = 2
        while prelude and left() > budget * 0.4:
            size = max(1, len(prelude) // n)
            removed = False
            for i in range(0, len(prelude), size):
                cand = prelude[:i] + prelude[i + size:]
                r = _fails_same(mod, best, oracle, known, cand)
                if r is not None:
                    prelude, best_res = cand, r
                    n = max(n - 1, 2)
                    removed = True
                    break
                if left() <= budget * 0.4:
                    break
            if not removed:
                if size == 1:
                    break
                n = min(len(prelude), n * 2)

    def try_case(c):
        nonlocal best, best_res
        r = _fails_same(mod, c, oracle, known, prelude)
        if r is not None:
            best, best_res = c, r
            return True
        return False

    progress = True
    while progress and left() > 0:
        progress = False
        ops = best.get("ops")
        if isinstance(ops, list) and ops:
            # 1. truncate after the failing step
            st = best_res.get("step", -1)
            if 0 <= st < len(ops) - 1:
                if try_case({**best, "ops": ops[: st + 1]}):
                    progress = True
            # 2. ddmin
            n = 2
            ops = best["ops"]
            while len(ops) >= 1 and left() > 0:
                size = max(1, len(ops) // n)
                removed = False
                for i in range(0, len(ops), size):
                    cand = ops[:i] + ops[i + size:]
                    if left() <= 0:
                        break
                    if try_case({**best, "ops": cand}):
                        ops = best["ops"]
                        n = max(n - 1, 2)
                        removed = True
                        progress = True
                        break
                if not removed:
                    if size == 1:
                        break
                    n = min(len(ops), n * 2)
        # 3. generic + property-specific simplifications
        if True:
            again = True
            while again and left() > 0:
                again = False
                for cand in _simpler(mod, best):
                    if left() <= 0:
                        break
                    if try_case(cand):
                        progress = again = True
                        break
        # 4. instance simplification
        cfg = best.get("cfg")
        if isinstance(cfg, dict) and "instance" in cfg:
            again = True
            while again and left() > 0:
                again = False
                for spec in shrink_candidates(best["cfg"]["instance"]):
                    if left() <= 0:
                        break
                    if try_case({**best, "cfg": {**best["cfg"], "instance": spec}}):
                        progress = again = True
                        break
    return best, best_res, prelude


def _simpler(mod, case):
    """Generic structural simplifications of a case, then the property's own."""
    ops = case.get("ops")
    if isinstance(ops, list):
        for i, op in enumerate(ops):
            if isinstance(op, list) and op and op[0] == "query" and len(op[1]) > 1:
                for k in range(len(op[1])):
                    yield {**case, "ops": ops[:i] + [["query", op[1][:k] + op[1][k + 1:]]] + ops[i + 1:]}
    cfg = case.get("cfg")
    if isinstance(cfg, dict):
        f = cfg.get("filter")
        if isinstance(f, list) and f:
            yield {**case, "cfg": {**cfg, "filter": []}}
            if len(f) > 1:
                for k in range(len(f)):
                    yield {**case, "cfg": {**cfg, "filter": f[:k] + f[k + 1:]}}
        if isinstance(f, list) and f and cfg.get("filter_style") not in (None, "callable"):
            yield {**case, "cfg": {**cfg, "filter_style": "callable"}}
        obs = cfg.get("observers")
        if obs and len(obs) > 0 and not cfg.get("observers_fixed"):
            for k in range(len(obs)):
                yield {**case, "cfg": {**cfg, "observers": obs[:k] + obs[k + 1:]}}
    if hasattr(mod, "simplify"):
        yield from mod.simplify(case)


def write_replay(pid, tier, case, res, original_ops, prelude=()):
    d = os.path.join(VERIF, "replays", pid)
    os.makedirs(d, exist_ok=True)
    path = os.path.join(d, f"{pid}-{case.get('seed', 0)}-{res['oracle']}.json")
    doc = {
        "property": pid, "oracle": res["oracle"], "seed": case.get("seed"), "tier": tier,
        "violation": {"step": res.get("step"), "message": res["message"], "keys": res.get("keys", {})},
        "original_ops": original_ops,
        "minimised_ops": len(case["ops"]) if isinstance(case.get("ops"), list) else None,
        "digest": res["digest"],
        "prelude": list(prelude),
        "prelude_note": "cases executed, in order, in the same process before `case`; non-empty only when the violation depends on state "
                        "that leaks from earlier worlds (process-global state)" if prelude else "",
        "case": case,
    }
    with open(path, "w") as f:
        f.write(json.dumps(doc, indent=1, sort_keys=True, default=str))
    return path


def replay_file(path, trace=False):
    """Executes a replay file in this process.  Returns (reproduced, text)."""
    setup_imports()
    with open(path) as f:
        doc = json.load(f)
    mod = load_prop(doc["property"])
    for c in doc.get("prelude") or []:
        run_case(mod, c, load_known())
    res = run_case(mod, doc["case"], load_known(), trace=trace)
    if res["status"] == "violation" and res["oracle"] == doc["oracle"]:
        return True, f"{res['oracle']}: {res['message']}", doc, res
    return False, f"status={res['status']} oracle={res['oracle']} message={res['message']}", doc, res


def replay_in_fresh_process(path):
    env = dict(os.environ)
    env["PYTHONHASHSEED"] = "0"
    p = subprocess.run([sys.executable, os.path.join(VERIF, "run.py"), "replay", path],
                       capture_output=True, text=True, env=env, timeout=300)
    return p.returncode == 1 and "VIOLATION property=" in p.stdout, p.stdout + p.stderr


# ------------------------------------------------------------------- check

def check(pid, tier, verif_seed, n=None, workers=None, budget=None):
    setup_imports()
    mod = load_prop(pid)
    known_all = load_known()
    known = [k for k in known_all if k.get("property") == pid and k.get("status") == "known"]
    workers = workers or min(16, os.cpu_count() or 4)
    n = n or mod.N[tier]
    t0 = time.time()
    print(f"[{pid}] tier={tier} VERIF_SEED={verif_seed} runs={n} workers={workers}", flush=True)
    total = explore(pid, tier, verif_seed, n, workers, known, budget or WALL_CAP[tier])
    exit_code = 0
    harness_errors = []
    if total["error"]:
        harness_errors.append(total["error"])
    # determinism recheck: first 8 seeds again, in another fresh child of this process
    if not total["error"]:
        def redo_digests():
            out = {}
            for idx in sorted(total["digests"]):
                seed = run_seed(pid, tier, verif_seed, idx)
                case = mod.generate(seed, tier)
                case["seed"] = seed
                case["index"] = idx
                out[idx] = run_case(mod, case, known)["digest"]
            return out
        try:
            redo = isolated(redo_digests)
            mism = [i for i in redo if redo[i] != total["digests"][i]]
            if mism:
                harness_errors.append(f"non-deterministic digests for indices {mism}")
        except Exception:
            harness_errors.append("determinism recheck raised:\n" + traceback.format_exc())
    # violations
    violations = []
    by_oracle = {}
    for f in sorted(total["failures"]):
        by_oracle.setdefault(f[2], f)

    def make_case(idx):
        seed = run_seed(pid, tier, verif_seed, idx)
        c = mod.generate(seed, tier)
        c["seed"] = seed
        c["index"] = idx
        return c

    for oracle, (idx, seed, _, msg, keys, chunk_start) in sorted(by_oracle.items(), key=lambda kv: kv[1][0])[:4]:
        case = make_case(idx)
        orig = len(case["ops"]) if isinstance(case.get("ops"), list) else None
        small, res, prelude = shrink(mod, case, oracle, known)
        if res is None and idx > chunk_start:
            # not reproducible alone: does it depend on the worlds that ran before it in the same process?
            prelude = [make_case(i) for i in range(chunk_start, idx)]
            small, res, prelude = shrink(mod, case, oracle, known, budget=60.0, prelude=prelude)
        if res is None:
            harness_errors.append(f"failure at index {idx} ({oracle}: {msg}) did not reproduce, neither alone nor after its chunk prefix")
            continue
        path = write_replay(pid, tier, small, res, orig, prelude)
        ok, out = replay_in_fresh_process(path)
        if not ok:
            harness_errors.append(f"replay of {path} did not reproduce in a fresh process:\n{out}")
            continue
        violations.append((oracle, res["message"] + (f" [after {len(prelude)} earlier world(s) in the same process]" if prelude else ""), path))
    for k in known:
        hits = total["known_hits"].get(k["id"], 0)
        print(f"KNOWN-FINDING: property={pid} {k['what']} [id={k['id']} hits_this_run={hits}]")
    for oracle, msg, path in violations:
        print(f"  violated oracle {oracle}: {msg}")
        print(f"VIOLATION property={pid} replay={path}")
        exit_code = 1
    wall = time.time() - t0
    write_evidence(mod, pid, tier, verif_seed, total, violations, wall, harness_errors, workers)
    if harness_errors:
        for h in harness_errors:
            print("HARNESS-ERROR:", h)
        if exit_code == 0:
            exit_code = 2
    n_fail = len(total["failures"])
    print(f"[{pid}] runs={total['n']} nontrivial_distinct={len(total['nontrivial'])} states={len(total['states'])} "
          f"failing_runs={n_fail} foreign={total['foreign']} known_hits={total['known_hits']} wall={wall:.1f}s exit={exit_code}")
    return exit_code


def write_evidence(mod, pid, tier, verif_seed, total, violations, wall, harness_errors, workers):
    os.makedirs(os.path.join(VERIF, "evidence"), exist_ok=True)
    n = max(total["n"], 1)
    samples = []
    for s in sorted(total["samples"], key=lambda c: c.get("index", 0))[:3]:
        samples.append(_clip(s))
    if not samples:
        samples = [{"note": "no run completed"}]
    evals = total["n"]
    if getattr(mod, "EVAL_COUNTER", None):
        evals = total["counts"].get(mod.EVAL_COUNTER, 0)
    cov = {
        "evaluations": evals,
        "distinct_nontrivial": len(total["nontrivial"]),
        "rule": mod.RULE,
        "samples": samples,
        "exhaustive": False,
        "runs": total["n"],
        "runs_per_hour": int(total["n"] / max(total["wall"], 1e-9) * 3600),
        "explore_wall_s": round(total["wall"], 2),
        "workers": workers,
        "wall_capped": total["capped"],
        "simulated_time_units": total["sim_time"],
        "sim_clock_seconds": round(total["clock_s"], 3),
        "ops_by_kind": total["counts"],
        "faults_fired": total["faults"],
        "fault_free_runs": total["fault_free"],
        "faulty_runs": total["faulty"],
        "distinct_states": len(total["states"]),
        "distinct_counts_are_lower_bounds": len(total["states"]) >= SET_CAP or len(total["nontrivial"]) >= SET_CAP,
        "distinct_states_measure": getattr(mod, "STATE_MEASURE", "distinct (instance hash, next-op index vector, machine-free vector, job-free vector) tuples"),
        "probes": total["probes"],
        "aborted_foreign": total["foreign"],
        "known_findings_hit": total["known_hits"],
        "failing_runs": len(total["failures"]),
        "determinism_recheck": "first 8 seeds re-executed in the parent process; digests equal" if not harness_errors else "see harness_errors",
        "components_real": getattr(mod, "REAL", []),
        "components_stub": getattr(mod, "STUB", []),
        "harness_errors": harness_errors,
    }
    cov.update(getattr(mod, "EXTRA_COVERAGE", {}))
    doc = {
        "property_id": pid,
        "tier": tier,
        "seed": int(verif_seed),
        "level": mod.LEVEL,
        "coverage": cov,
        "assumptions": getattr(mod, "ASSUMPTIONS", []),
        "wall_s": round(wall, 2),
        "violations": len(violations),
    }
    with open(os.path.join(VERIF, "evidence", f"{pid}.json"), "w") as f:
        f.write(json.dumps(doc, indent=1, sort_keys=True, default=str))


def _clip(case, limit=60):
    c = dict(case)
    if isinstance(c.get("ops"), list) and len(c["ops"]) > limit:
        c["ops"] = c["ops"][:limit] + [f"... {len(case['ops']) - limit} more"]
    return json.loads(cjson(c))
