"""Swarm instance generator (plain JSON-able matrices) + instance shrinker.

An instance spec is ``{"jobs": [[[machines], duration], ...], ...], "name": str}``.
Nothing here imports job_shop_lib except :func:`build`.
"""

from __future__ import annotations

import copy


HUGE = 1 << 24  # beyond this float32 cannot represent every integer
HUGE64 = 1 << 53  # beyond this float64 cannot represent every integer


def gen_instance(rng, *, max_jobs=4, max_machines=4, max_ops=4, flexible=None,
                 zero=None, regular=None, recirc=None, positive=None,
                 classic=None, degenerate=True, min_jobs=1, max_dur=9, huge=0.0, sparse_ids=0.0, large=0.0, recycled=0.02, huge64=True):
    """Draws an instance spec.  Every ``None`` switch is drawn per call.
    `large`: probability of a 6-10 jobs x up to 8 machines x up to 10 operations instance (scale effects).
    `sparse_ids`: probability of machine ids with gaps (unused machines, large maximum id).
    `huge`: probability that the time unit is so fine that durations lie
    around 2**24 (e.g. microseconds), where a float32 detour loses integers."""
    if large and rng.random() < large:
        max_jobs, max_machines, max_ops, min_jobs, degenerate = 10, 8, 10, 6, False
    spec = _gen_instance(rng, max_jobs=max_jobs, max_machines=max_machines, max_ops=max_ops, flexible=flexible, zero=zero,
                         regular=regular, recirc=recirc, positive=positive, classic=classic, degenerate=degenerate,
                         min_jobs=min_jobs, max_dur=max_dur)
    if rng.random() < recycled:
        # the instance will be assembled from copies of operations that already belonged to another instance
        spec["recycled"] = True
    elif rng.random() < recycled:
        # after the instance is built the user derives a what-if variant from deep copies of its jobs (another
        # layout) and goes on using the original
        spec["whatif"] = True
    if sparse_ids and rng.random() < sparse_ids:
        # machine ids with gaps and a large maximum: many machines that no operation uses
        stride, off = rng.randint(2, 4), rng.randint(0, 3)
        for job in spec["jobs"]:
            for op in job:
                op[0] = [m * stride + off for m in op[0]]
        spec["shape"] = "sparse_machine_ids"
    if huge and rng.random() < huge:
        k = 0
        # a quarter of them in the 2**53 range (nanosecond-like units): a float64 detour loses integers there
        base = HUGE64 if rng.random() < 0.25 and huge64 else HUGE
        for job in spec["jobs"]:
            for op in job:
                # keep zero durations zero; lift one or two operations per instance into the 2**24 range, +-3
                if op[1] > 0 and (k == 0 or rng.random() < 0.3):
                    op[1] = base + rng.randint(-3, 3) + op[1]
                    k += 1
        spec["shape"] = "huge_durations" if base == HUGE else "huge64_durations"
    return spec


def benchmark_spec(name):
    """Spec of a benchmark instance shipped with the library (read from its data file, not through the library)."""
    import json
    import os

    root = os.environ.get("JSL_REPO", "/repo")
    with open(os.path.join(root, "job_shop_lib", "benchmarking", "benchmark_instances.json")) as f:
        d = json.load(f)[name]
    jobs = [[[[m] if isinstance(m, int) else list(m), dur] for m, dur in zip(ms, ds)] for ms, ds in zip(d["machines_matrix"], d["duration_matrix"])]
    return {"jobs": jobs, "name": name, "shape": "benchmark", "benchmark": name}


def _gen_instance(rng, *, max_jobs=4, max_machines=4, max_ops=4, flexible=None,
                  zero=None, regular=None, recirc=None, positive=None,
                  classic=None, degenerate=True, min_jobs=1, max_dur=9):
    if positive is True:
        zero = False
    if flexible is None:
        flexible = rng.random() < 0.4
    if zero is None:
        zero = rng.random() < 0.3
    if regular is None:
        regular = rng.random() < 0.5
    if recirc is None:
        recirc = rng.random() < 0.6
    if classic is None:
        classic = rng.random() < 0.15
    nj = rng.randint(min_jobs, max_jobs)
    nm = rng.randint(1, max_machines)
    lo = 0 if zero else 1
    shape = "normal"
    if degenerate:
        r = rng.random()
        if r < 0.04:
            shape = "all_equal"
        elif r < 0.07 and zero:
            shape = "all_zero"
        elif r < 0.11:
            nj = 1
            shape = "single_job"
        elif r < 0.15:
            nm = 1
            shape = "single_machine"
    eq = rng.randint(lo, max_dur)
    jobs = []
    if classic:
        # every job visits every machine exactly once
        for _ in range(nj):
            order = list(range(nm))
            rng.shuffle(order)
            jobs.append([[[m], _dur(rng, lo, max_dur, shape, eq)] for m in order])
        return {"jobs": jobs, "name": "sim", "shape": "classic"}
    n_reg = rng.randint(1, max_ops)
    for _ in range(nj):
        n = n_reg if regular else rng.randint(1, max_ops)
        job = []
        used = set()
        for _ in range(n):
            if flexible and nm > 1 and rng.random() < 0.6:
                k = rng.randint(2, nm)
                ms = rng.sample(range(nm), k)
            else:
                cand = list(range(nm))
                if not recirc:
                    c2 = [m for m in cand if m not in used]
                    cand = c2 or cand
                ms = [rng.choice(cand)]
            used.update(ms)
            job.append([ms, _dur(rng, lo, max_dur, shape, eq)])
        jobs.append(job)
    return {"jobs": jobs, "name": "sim", "shape": shape}


def _dur(rng, lo, hi, shape, eq):
    if shape == "all_equal":
        return eq
    if shape == "all_zero":
        return 0
    # bias towards small durations so ties are common
    if rng.random() < 0.5:
        return rng.randint(lo, min(hi, 3))
    return rng.randint(lo, hi)


def is_flexible(spec):
    return any(len(ms) > 1 for job in spec["jobs"] for ms, _ in job)


def all_positive(spec):
    return all(d > 0 for job in spec["jobs"] for _, d in job)


def n_ops(spec):
    return sum(len(j) for j in spec["jobs"])


def n_machines(spec):
    return max(m for job in spec["jobs"] for ms, _ in job for m in ms) + 1


def has_recirculation(spec):
    for job in spec["jobs"]:
        seen = set()
        for ms, _ in job:
            if seen & set(ms):
                return True
            seen |= set(ms)
    return False


def build(spec, name=None, **metadata):
    """Builds a fresh real JobShopInstance from a spec (new Operation objects)."""
    from job_shop_lib import JobShopInstance, Operation

    if spec.get("benchmark"):
        # the user loads a benchmark, derives a sub-instance from its jobs (which renumbers the operations of that
        # first copy), and later loads the same benchmark again for the run proper
        from job_shop_lib.benchmarking import load_benchmark_instance

        first = load_benchmark_instance(spec["benchmark"])
        JobShopInstance(first.jobs[1:], name="sub")
        return load_benchmark_instance(spec["benchmark"])
    jobs = []
    for job in spec["jobs"]:
        row = []
        for ms, d in job:
            # single-machine operations are given as int half of the time in
            # real use; keep it deterministic: int iff exactly one machine
            row.append(Operation(ms[0] if len(ms) == 1 else list(ms), d))
        jobs.append(row)
    if spec.get("recycled"):
        # the operations first belong to a donor instance with another layout (an extra job in front, jobs in
        # reverse order); the instance under test is built from deep copies of them in the layout of the spec
        import copy

        donor = JobShopInstance([[Operation(0, 1), Operation(0, 2)]] + jobs[::-1], name="donor")
        jobs = [[copy.deepcopy(op) for op in job] for job in donor.jobs[1:][::-1]]
    inst = JobShopInstance(jobs, name=name or spec.get("name", "sim"), **metadata)
    if spec.get("whatif"):
        import copy

        JobShopInstance([[Operation(0, 1)]] + [copy.deepcopy(job) for job in inst.jobs[::-1]], name="what-if")
        JobShopInstance([[Operation(0, 2)]] + copy.deepcopy(inst).jobs[::-1], name="what-if-2")
    return inst


def as_tuple(spec):
    return tuple(tuple((tuple(ms), d) for ms, d in job) for job in spec["jobs"])


def shrink_candidates(spec):
    """Yields simpler instance specs (each strictly smaller by some measure)."""
    jobs = spec["jobs"]
    if spec.get("recycled"):
        yield {k: v for k, v in spec.items() if k != "recycled"}
    if spec.get("whatif"):
        yield {k: v for k, v in spec.items() if k != "whatif"}
    if spec.get("benchmark"):
        yield {k: v for k, v in spec.items() if k != "benchmark"}
        return
    base = {k: v for k, v in spec.items() if k != "jobs"}
    # drop a job
    if len(jobs) > 1:
        for j in range(len(jobs)):
            yield {**base, "jobs": copy.deepcopy(jobs[:j] + jobs[j + 1:])}
    # truncate a job (drop last / first op)
    for j, job in enumerate(jobs):
        if len(job) > 1:
            nj = copy.deepcopy(jobs)
            nj[j] = nj[j][:-1]
            yield {**base, "jobs": nj}
            nj = copy.deepcopy(jobs)
            nj[j] = nj[j][1:]
            yield {**base, "jobs": nj}
    # shrink machine sets
    for j, job in enumerate(jobs):
        for p, (ms, d) in enumerate(job):
            if len(ms) > 1:
                for drop in range(len(ms)):
                    nj = copy.deepcopy(jobs)
                    nj[j][p][0] = ms[:drop] + ms[drop + 1:]
                    yield {**base, "jobs": nj}
    # renumber machines densely / lower machine ids
    used = sorted({m for job in jobs for ms, _ in job for m in ms})
    if used != list(range(len(used))):
        remap = {m: i for i, m in enumerate(used)}
        nj = [[[[remap[m] for m in ms], d] for ms, d in job] for job in jobs]
        yield {**base, "jobs": nj}
    # lower durations
    for j, job in enumerate(jobs):
        for p, (ms, d) in enumerate(job):
            for nd in sorted({1, d // 2, d - 1, d - HUGE if d > HUGE else d - 1, d - HUGE64 + HUGE if d > HUGE64 else d - 1}):
                if 0 <= nd < d and not (d > 0 and nd == 0):
                    nj = copy.deepcopy(jobs)
                    nj[j][p][1] = nd
                    yield {**base, "jobs": nj}
