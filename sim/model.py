"""Reference model of job-shop dispatching semantics.

Pure Python on ints / tuples / lists.  Imports nothing from job_shop_lib and
shares no code with it.  Everything except the history is recomputed from
scratch, on demand, by the obvious definition.

``jobs``: tuple of jobs, each a tuple of ``(machines_tuple, duration)``.
History entries: ``(job, position, machine, start, end)``.
"""

from __future__ import annotations

UNDEFINED = None  # returned where the documentation leaves a value undefined

FILTERS = (
    "dominated_operations",
    "non_immediate_machines",
    "non_idle_machines",
    "non_immediate_operations",
)
USER_FILTERS = ("user_keep_last", "user_longest_only")


class Model:
    def __init__(self, jobs, filt=()):
        self.jobs = tuple(tuple((tuple(ms), d) for ms, d in job) for job in jobs)
        self.nj = len(self.jobs)
        self.nm = max(m for job in self.jobs for ms, _ in job for m in ms) + 1
        self.filt = tuple(filt or ())
        self.opid = {}
        self.ops = []  # id -> (j, p)
        for j, job in enumerate(self.jobs):
            for p in range(len(job)):
                self.opid[(j, p)] = len(self.ops)
                self.ops.append((j, p))
        self.n_ops = len(self.ops)
        self.flexible = any(len(ms) > 1 for job in self.jobs for ms, _ in job)
        self.positive = all(d > 0 for job in self.jobs for _, d in job)
        self.hist = []
        self.avail_override = None
        self._vecs = None

    # ------------------------------------------------------------------ state
    def reset(self):
        self.hist = []
        self.avail_override = None
        self._vecs = None

    def _derive(self):
        # derived from the history only; memoised until the next mutation
        if self._vecs is None or self._vecs[0] != len(self.hist):
            nxt = [0] * self.nj
            jav = [0] * self.nj
            mav = [0] * self.nm
            for j, _, m, _, e in self.hist:
                nxt[j] += 1
                jav[j] = e  # history order = job order within a job
                mav[m] = e
            self._vecs = (len(self.hist), nxt, jav, mav)
        return self._vecs

    @property
    def nxt(self):
        return list(self._derive()[1])

    @property
    def javail(self):
        return list(self._derive()[2])

    @property
    def mavail(self):
        return list(self._derive()[3])

    def msched(self):
        out = [[] for _ in range(self.nm)]
        for j, p, m, s, e in self.hist:
            out[m].append((self.opid[(j, p)], s, m))
        return out

    def dur(self, j, p):
        return self.jobs[j][p][1]

    def machines(self, j, p):
        return self.jobs[j][p][0]

    def start(self, j, p, m):
        _, _, jav, mav = self._derive()
        return max(mav[m], jav[j])

    def dispatch(self, j, p, m):
        assert self.nxt[j] == p and m in self.machines(j, p), "model misuse"
        s = self.start(j, p, m)
        e = s + self.dur(j, p)
        self.hist.append((j, p, m, s, e))
        self.avail_override = None
        self._vecs = None
        return s, e

    def makespan(self):
        return max((e for *_, e in self.hist), default=0)

    def is_complete(self):
        return len(self.hist) == self.n_ops

    # ---------------------------------------------------------------- queries
    def ready(self):
        nxt = self.nxt
        return [(j, nxt[j]) for j in range(self.nj) if nxt[j] < len(self.jobs[j])]

    def min_start(self, ops):
        if not ops:
            return self.makespan()
        return min(self.start(j, p, m) for j, p in ops for m in self.machines(j, p))

    def est1(self, j, p):
        mav = self.mavail
        return max(min(mav[m] for m in self.machines(j, p)), self.javail[j])

    # filter criteria, from the docstrings / the property statement ----------
    def f_dominated_operations(self, ops):
        if any(self.dur(j, p) == 0 for j, p in ops):
            return UNDEFINED
        minend = {}
        for j, p in ops:
            for m in self.machines(j, p):
                e = self.start(j, p, m) + self.dur(j, p)
                minend[m] = min(minend.get(m, e), e)
        return [
            (j, p) for j, p in ops
            if any(self.start(j, p, m) < minend[m] for m in self.machines(j, p))
        ]

    def f_non_immediate_machines(self, ops):
        t = self.min_start(ops)
        imm = {m for j, p in ops for m in self.machines(j, p) if self.start(j, p, m) == t}
        return [(j, p) for j, p in ops if any(m in imm for m in self.machines(j, p))]

    def f_non_idle_machines(self, ops):
        t = self.min_start(ops)
        busy = {m for (_, _, m, _, e) in self.hist if e > t}
        return [(j, p) for j, p in ops if any(m not in busy for m in self.machines(j, p))]

    def f_non_immediate_operations(self, ops):
        t = self.min_start(ops)
        return [(j, p) for j, p in ops if self.est1(j, p) == t]

    # user-defined filters used by the harness (any callable returning a sub-list is a valid filter)
    def f_user_keep_last(self, ops):
        return list(ops[-1:])

    def f_user_longest_only(self, ops):
        if not ops:
            return []
        mx = max(self.dur(j, p) for j, p in ops)
        return [(j, p) for j, p in ops if self.dur(j, p) == mx]

    def f_user_none_if_single(self, ops):
        return [] if len(ops) == 1 else list(ops)

    def apply_filters(self, names, ops):
        for name in names:
            ops = getattr(self, "f_" + name)(ops)
            if ops is UNDEFINED:
                return UNDEFINED
        return ops

    def available(self):
        """Available operations per spec, or UNDEFINED (dominated filter fed
        with a zero-duration operation) unless an override was supplied."""
        if self.avail_override is not None:
            return list(self.avail_override)
        return self.apply_filters(self.filt, self.ready())

    def now(self):
        av = self.available()
        if av is UNDEFINED:
            return UNDEFINED
        return self.min_start(av)

    def now_unfiltered(self):
        return self.min_start(self.ready())

    def scheduled(self):
        return [(j, p) for j, p, *_ in self.hist]

    def unscheduled(self):
        nxt = self.nxt
        return [(j, p) for j in range(self.nj) for p in range(nxt[j], len(self.jobs[j]))]

    def ongoing(self, now):
        return [h for h in self.hist if h[4] > now]

    def completed(self, now):
        return [(h[0], h[1]) for h in self.hist if h[4] <= now]

    def est_all(self):
        """Earliest possible start of every unscheduled operation (forward
        recursion along each job, machines taken at their free times)."""
        est = {}
        nxt, jav, mav = self.nxt, self.javail, self.mavail
        for j in range(self.nj):
            prev_end = jav[j]
            for p in range(nxt[j], len(self.jobs[j])):
                ms, d = self.jobs[j][p]
                s = max(prev_end, min(mav[m] for m in ms))
                est[(j, p)] = s
                prev_end = s + d
        return est

    # ----------------------------------------------------------------- rewards
    def idle_time(self):
        total = 0
        last = [0] * self.nm
        for _, _, m, s, e in self.hist:
            total += s - last[m]
            last[m] = e
        return total

    # ---------------------------------------------------------------- features
    def features_spec(self):
        """Returns {observer: {level: {entity_index: value}}} restricted to the
        entities the property speaks about (see DESIGN C11).  ``now`` must be
        defined."""
        now = self.now()
        av = self.available()
        est = self.est_all()
        nxt = self.nxt
        uns = self.unscheduled()
        uns_set = set(uns)
        jobs_left = [j for j in range(self.nj) if nxt[j] < len(self.jobs[j])]
        mach_left = sorted({m for j, p in uns for m in self.machines(j, p)})
        ongoing = self.ongoing(now)
        completed = set(self.completed(now))
        oid = self.opid
        spec = {}
        av_set = set(av)
        av_jobs = {j for j, _ in av}
        av_machines = {m for j, p in av for m in self.machines(j, p)}
        spec["is_ready"] = {
            "operations": {oid[o]: float(o in av_set) for o in uns},
            "jobs": {j: float(j in av_jobs) for j in jobs_left},
            "machines": {m: float(m in av_machines) for m in mach_left},
        }
        spec["earliest_start_time"] = {
            "operations": {oid[o]: float(est[o] - now) for o in uns},
            "jobs": {j: float(est[(j, nxt[j])] - now) for j in jobs_left},
            "machines": {
                m: float(min(est[o] for o in uns if m in self.machines(*o)) - now)
                for m in mach_left
            },
        }
        dur = {
            "operations": {oid[o]: float(self.dur(*o)) for o in uns},
            "jobs": {j: float(sum(self.dur(j, p) for p in range(nxt[j], len(self.jobs[j])))) for j in jobs_left},
        }
        if not self.flexible:
            dur["machines"] = {
                m: float(sum(self.dur(*o) for o in uns if m in self.machines(*o)))
                for m in mach_left
            }
        if self.hist:
            j, p, m, s, e = self.hist[-1]
            dur["operations"][oid[(j, p)]] = float(e - max(s, now))
        spec["duration"] = dur
        spec["is_scheduled"] = {
            "operations": {
                oid[o]: float(o not in uns_set)
                for o in list(uns) + [(h[0], h[1]) for h in ongoing]
            },
            "jobs": {j: float(sum(1 for h in ongoing if h[0] == j)) for j in jobs_left},
            "machines": {m: float(sum(1 for h in ongoing if h[2] == m)) for m in mach_left},
        }
        spec["position_in_job"] = {
            "operations": {oid[(j, p)]: float(p - nxt[j]) for j, p in uns},
        }
        rem = {"jobs": {j: float(len(self.jobs[j]) - nxt[j]) for j in jobs_left}}
        if not self.flexible:
            rem["machines"] = {
                m: float(sum(1 for o in uns if m in self.machines(*o))) for m in mach_left
            }
        spec["remaining_operations"] = rem
        # (a user-defined filter may hide the operation that could start first, so the current time can fall back and
        # an operation that was complete a moment ago is "ongoing" again; its flag was raised when it completed and the
        # statement only speaks about entities with work left: under such filters only unscheduled operations are compared)
        user = any(f.startswith("user_") for f in self.filt)
        spec["is_completed"] = {
            "operations": {oid[o]: float(o in completed) for o in (uns if user else self.ops)},
            "jobs": {j: 0.0 for j in jobs_left},
            "machines": {m: 0.0 for m in mach_left},
        }
        return spec


# ---------------------------------------------------------------------------
# independent feasibility checker (C01): works on plain tuples only
# ---------------------------------------------------------------------------

def check_feasible(jobs, machine_lists, n_accepted=None):
    """``machine_lists[m]`` = list of ``(j, p, start, machine_recorded)`` in the
    listed order.  Returns a list of error strings (empty = feasible)."""
    errs = []
    seen = {}
    for m, lst in enumerate(machine_lists):
        prev_end = None
        for (j, p, s, mrec) in lst:
            if not (0 <= j < len(jobs) and 0 <= p < len(jobs[j])):
                errs.append(f"foreign operation ({j},{p})")
                continue
            ms, d = jobs[j][p]
            if (j, p) in seen:
                errs.append(f"operation ({j},{p}) appears twice")
            seen[(j, p)] = (s, s + d, m)
            if mrec != m:
                errs.append(f"operation ({j},{p}) records machine {mrec} but sits in list {m}")
            if m not in ms:
                errs.append(f"operation ({j},{p}) on ineligible machine {m} (eligible {list(ms)})")
            if s < 0:
                errs.append(f"operation ({j},{p}) has negative start {s}")
            if prev_end is not None and s < prev_end:
                errs.append(f"machine {m}: ({j},{p}) starts {s} before previous end {prev_end}")
            prev_end = s + d
    for j, job in enumerate(jobs):
        ps = sorted(p for (jj, p) in seen if jj == j)
        if ps != list(range(len(ps))):
            errs.append(f"job {j}: scheduled positions {ps} are not a prefix")
        for p in ps[1:]:
            if (j, p - 1) in seen and seen[(j, p)][0] < seen[(j, p - 1)][1]:
                errs.append(f"job {j}: op {p} starts {seen[(j, p)][0]} before op {p-1} ends {seen[(j, p-1)][1]}")
    if n_accepted is not None and len(seen) != n_accepted:
        errs.append(f"{len(seen)} distinct scheduled operations but {n_accepted} accepted dispatches")
    return errs


# ---------------------------------------------------------------------------
# exact optimum by memoised branch and bound over dispatch orders (semi-active
# schedules contain an optimal one).  Tiny instances only.
# ---------------------------------------------------------------------------

def opt_makespan(jobs, want_history=False):
    jobs = tuple(tuple((tuple(ms), d) for ms, d in job) for job in jobs)
    nj = len(jobs)
    nm = max(m for job in jobs for ms, _ in job for m in ms) + 1
    rem_work = [[0] * (len(job) + 1) for job in jobs]
    for j, job in enumerate(jobs):
        for p in range(len(job) - 1, -1, -1):
            rem_work[j][p] = rem_work[j][p + 1] + job[p][1]
    best = [sum(d for job in jobs for _, d in job) + 1, None]
    memo = {}

    def rec(nxt, jav, mav, cur, hist):
        lb = cur
        for j in range(nj):
            lb = max(lb, jav[j] + rem_work[j][nxt[j]])
        if lb >= best[0]:
            return
        key = (nxt, jav, mav)
        prev = memo.get(key)
        if prev is not None and prev <= cur:
            return
        memo[key] = cur
        done = True
        for j in range(nj):
            p = nxt[j]
            if p >= len(jobs[j]):
                continue
            done = False
            ms, d = jobs[j][p]
            for m in ms:
                s = max(jav[j], mav[m])
                e = s + d
                n2 = nxt[:j] + (p + 1,) + nxt[j + 1:]
                j2 = jav[:j] + (e,) + jav[j + 1:]
                m2 = mav[:m] + (e,) + mav[m + 1:]
                rec(n2, j2, m2, max(cur, e), hist + ((j, m),) if want_history else hist)
        if done and cur < best[0]:
            best[0] = cur
            best[1] = hist

    rec((0,) * nj, (0,) * nj, (0,) * nm, 0, ())
    return (best[0], best[1]) if want_history else best[0]


def lower_bounds(jobs):
    """max job length and, for non-flexible instances, max machine load."""
    lb = max(sum(d for _, d in job) for job in jobs)
    if all(len(ms) == 1 for job in jobs for ms, _ in job):
        load = {}
        for job in jobs:
            for ms, d in job:
                load[ms[0]] = load.get(ms[0], 0) + d
        lb = max(lb, max(load.values()))
    return lb


# ---------------------------------------------------------------------------
# per-machine job sequences: acceptability = acyclicity of the precedence graph
# ---------------------------------------------------------------------------

def sequences_schedule(jobs, sequences):
    """Non-flexible instances.  ``sequences[m]`` = list of job ids.  Returns
    ``None`` when the sequences admit no schedule, else the semi-active
    schedule as per-machine lists of ``(op_id, start, machine)``."""
    jobs = tuple(tuple((tuple(ms), d) for ms, d in job) for job in jobs)
    opid = {}
    k = 0
    for j, job in enumerate(jobs):
        for p in range(len(job)):
            opid[(j, p)] = k
            k += 1
    nm = max(m for job in jobs for ms, _ in job for m in ms) + 1
    # k-th occurrence of job j on machine m = k-th operation of j that runs on m
    per_machine_ops = []
    for m in range(nm):
        seq = sequences[m] if m < len(sequences) else []
        cursor = {}
        ops = []
        for j in seq:
            if not (0 <= j < len(jobs)):
                return None
            positions = [p for p, (ms, _) in enumerate(jobs[j]) if ms[0] == m]
            c = cursor.get(j, 0)
            if c >= len(positions):
                return None
            ops.append((j, positions[c]))
            cursor[j] = c + 1
        for j in range(len(jobs)):
            positions = [p for p, (ms, _) in enumerate(jobs[j]) if ms[0] == m]
            if cursor.get(j, 0) != len(positions):
                return None
        per_machine_ops.append(ops)
    preds = {o: [] for o in opid}
    for j, job in enumerate(jobs):
        for p in range(1, len(job)):
            preds[(j, p)].append((j, p - 1))
    for ops in per_machine_ops:
        for a, b in zip(ops, ops[1:]):
            preds[b].append(a)
    end = {}
    state = {}

    def visit(o):
        st = state.get(o)
        if st == 1:
            return False  # cycle
        if st == 2:
            return True
        state[o] = 1
        s = 0
        for q in preds[o]:
            if not visit(q):
                return False
            s = max(s, end[q])
        end[o] = s + jobs[o[0]][o[1]][1]
        state[o] = 2
        return True

    import sys
    sys.setrecursionlimit(max(sys.getrecursionlimit(), 10000))
    for o in opid:
        if not visit(o):
            return None
    return [
        [(opid[o], end[o] - jobs[o[0]][o[1]][1], m) for o in ops]
        for m, ops in enumerate(per_machine_ops)
    ]


# ---------------------------------------------------------------------------
# graph specifications (C16)
# ---------------------------------------------------------------------------

def graph_spec(jobs, builder):
    """Returns ``(node_types, edges)`` where ``node_types[i]`` is
    ``("OPERATION", op_id) | ("MACHINE", m) | ("JOB", j) | ("GLOBAL",) |
    ("SOURCE",) | ("SINK",)`` and ``edges`` maps ``(u, v)`` to the set of
    acceptable type names ({"CONJUNCTIVE"}, {"DISJUNCTIVE"}, both, or {None})."""
    jobs = tuple(tuple((tuple(ms), d) for ms, d in job) for job in jobs)
    nm = max(m for job in jobs for ms, _ in job for m in ms) + 1
    nodes = []
    opid = {}
    for j, job in enumerate(jobs):
        for p in range(len(job)):
            opid[(j, p)] = len(nodes)
            nodes.append(("OPERATION", len(nodes)))
    edges = {}

    def add(u, v, t):
        edges.setdefault((u, v), set()).add(t)

    by_machine = [[opid[(j, p)] for j, job in enumerate(jobs) for p, (ms, _) in enumerate(job) if m in ms] for m in range(nm)]
    by_job = [[opid[(j, p)] for p in range(len(job))] for j, job in enumerate(jobs)]
    if builder == "disjunctive":
        for ops in by_machine:
            for a in ops:
                for b in ops:
                    if a != b:
                        add(a, b, "DISJUNCTIVE")
        for ops in by_job:
            for a, b in zip(ops, ops[1:]):
                # consecutive operations of a job that share a machine: a DiGraph holds one edge a->b; it must
                # be the conjunctive one (the precedence cannot be expressed otherwise, the disjunctive relation
                # is still carried by b->a)
                edges[(a, b)] = {"CONJUNCTIVE"}
        src = len(nodes)
        nodes.append(("SOURCE",))
        snk = len(nodes)
        nodes.append(("SINK",))
        for ops in by_job:
            add(src, ops[0], "CONJUNCTIVE")
            add(ops[-1], snk, "CONJUNCTIVE")
        return nodes, edges
    mach = []
    for m in range(nm):
        mach.append(len(nodes))
        nodes.append(("MACHINE", m))
    for m, ops in enumerate(by_machine):
        for o in ops:
            add(mach[m], o, None)
            add(o, mach[m], None)
    if builder in ("agent_task", "agent_task_with_jobs"):
        for a in mach:
            for b in mach:
                if a != b:
                    add(a, b, None)
    if builder == "agent_task":
        for ops in by_job:
            for a in ops:
                for b in ops:
                    if a != b:
                        add(a, b, None)
        return nodes, edges
    jn = []
    for j in range(len(jobs)):
        jn.append(len(nodes))
        nodes.append(("JOB", j))
    for j, ops in enumerate(by_job):
        for o in ops:
            add(jn[j], o, None)
            add(o, jn[j], None)
    if builder == "agent_task_with_jobs":
        for a in jn:
            for b in jn:
                if a != b:
                    add(a, b, None)
        return nodes, edges
    assert builder == "agent_task_complete", builder
    g = len(nodes)
    nodes.append(("GLOBAL",))
    for a in mach + jn:
        add(g, a, None)
        add(a, g, None)
    return nodes, edges


def solved_graph_longest_path(jobs, machine_orders):
    """Longest duration-weighted source->sink path of the solved disjunctive
    graph given per-machine operation orders [(j,p),...]; None if cyclic."""
    preds = {}
    for j, job in enumerate(jobs):
        for p in range(len(job)):
            preds[(j, p)] = [(j, p - 1)] if p else []
    for ops in machine_orders:
        for a, b in zip(ops, ops[1:]):
            preds[b].append(a)
    end, state = {}, {}

    def visit(o):
        if state.get(o) == 1:
            return False
        if state.get(o) == 2:
            return True
        state[o] = 1
        s = 0
        for q in preds[o]:
            if not visit(q):
                return False
            s = max(s, end[q])
        end[o] = s + jobs[o[0]][o[1]][1]
        state[o] = 2
        return True

    for o in preds:
        if not visit(o):
            return None
    return max(end.values())
