"""Run context: oracle verdicts, known findings, probes, counters, event log."""

from __future__ import annotations

import os
import sys
import traceback

from .util import Violation, Foreign, cjson, digest, h64


def setup_imports():
    """Makes sure job_shop_lib is imported from /repo's working tree (or from
    the scratch copy named by JSL_REPO, used only for mutant self-tests)."""
    os.environ.setdefault("MPLBACKEND", "Agg")
    root = os.environ.get("JSL_REPO", "/repo")
    if sys.path[0] != root:
        sys.path.insert(0, root)
    import job_shop_lib

    here = os.path.dirname(os.path.abspath(job_shop_lib.__file__))
    if not here.startswith(os.path.abspath(root)):
        raise RuntimeError(f"job_shop_lib imported from {here}, expected under {root}")
    return root


class Ctx:
    """Per-run context handed to worlds and oracles."""

    def __init__(self, prop, known=(), trace=False):
        self.prop = prop
        self.known = [k for k in known if k.get("property") == prop and k.get("status") == "known"]
        self.known_hits = {}
        self.probes = {}
        self.counts = {}
        self.faults = {}
        self.states = set()
        self.log = []
        self.step = -1
        self.trace = trace
        self.sim_time = 0
        self.clock_s = 0.0

    # ------------------------------------------------------------ verdicts
    def fail(self, oracle, message, **keys):
        """Reports a violation.  If it matches a known finding the hit is
        recorded and execution continues (returns True)."""
        for k in self.known:
            if k.get("oracle") == oracle and all(keys.get(a) == b for a, b in k.get("match", {}).items()):
                self.known_hits[k["id"]] = self.known_hits.get(k["id"], 0) + 1
                return True
        raise Violation(oracle, message, **keys)

    def check(self, cond, oracle, message, **keys):
        if not cond:
            return self.fail(oracle, message() if callable(message) else message, **keys)
        return False

    # ------------------------------------------------------------ measuring
    def probe(self, name, n=1):
        self.probes[name] = self.probes.get(name, 0) + n

    def count(self, kind, n=1):
        self.counts[kind] = self.counts.get(kind, 0) + n

    def fault(self, kind, n=1):
        self.faults[kind] = self.faults.get(kind, 0) + n

    def state(self, obj):
        self.states.add(h64(obj))

    def event(self, *fields):
        self.log.append(list(fields))
        if self.trace:
            print("  ev", cjson(fields))

    def digest(self):
        return digest(self.log)


def owner_of_exception(exc, default):
    """Attributes a library exception to the property owning the code it was
    raised in (DESIGN 3.5)."""
    tb = traceback.extract_tb(exc.__traceback__)
    files = [f.filename for f in tb]
    for fn in reversed(files):
        if "feature_observers" in fn:
            return "C11"
        if "graph_updaters" in fn or "_job_shop_graph" in fn:
            return "C17"
        if "_reward_observers" in fn:
            return "C13"
        if "reinforcement_learning" in fn:
            return "C18"
        if "/rules/" in fn:
            return "C04"
        if "_ready_operation_filters" in fn or "_factories" in fn:
            return "C07"
    return default


def short_exc(e):
    return f"{type(e).__name__}: {str(e)[:160]}"
