"""C01 - every dispatch history yields a feasible schedule."""

from ..dworld import DWorld, Hooks, run_ops, gen_dispatch_ops, gen_filter
from ..instances import gen_instance, n_ops
from ..model import check_feasible
from ..util import stream

PROP = "C01"
LEVEL = "exploration"
N = {"quick": 150000, "thorough": 3000000}
RULE = ("seeded instance (flexible / zero durations / recirculation / irregular / degenerate shapes) x filter "
        "configuration x op list (dispatch from raw-ready or filtered list on any eligible machine, invalid "
        "requests, query bursts, resets); independent feasibility checker after every op; a case is non-trivial "
        "if >= 3 accepted dispatches; distinct = distinct (config, op list) hashes")
REAL = ["Dispatcher", "Schedule", "ScheduledOperation", "ready-operation filters + factories"]
STUB = []
ASSUMPTIONS = ["reference feasibility checker in sim/model.py is correct", "instances are non-empty with non-empty jobs"]


def generate(seed, tier):
    rng = stream(seed, "c01")
    big = tier == "thorough" and rng.random() < 0.15
    spec = gen_instance(rng, huge=0.03, sparse_ids=0.03, large=0.008, max_jobs=6 if big else 4, max_machines=5 if big else 4, max_ops=6 if big else 4)
    if stream(seed, "c01-benchmark").random() < 0.003:
        from ..instances import benchmark_spec

        spec = benchmark_spec("ft06")  # 6 x 6, loaded through load_benchmark_instance (twice, see instances.build)
    names, style = gen_filter(rng, None, user=0.15)
    faulty = rng.random() < 0.6
    ops = gen_dispatch_ops(
        rng, n_ops(spec), p_fork=0.03 if rng.random() < 0.3 else 0.0, p_solve_rest=0.03 if rng.random() < 0.4 else 0.0,
        p_query=0.12 if faulty else 0.05,
        p_invalid=0.15 if faulty else 0.0,
        p_reset=0.04 if faulty else 0.0,
        episodes=2 if rng.random() < 0.15 else 1,
    )
    for op in ops:
        if op[0] == "dispatch" and rng.random() < 0.2:
            op.append(1)  # machine_id=None form where the op has a single machine
    return {"prop": PROP, "cfg": {"instance": spec, "filter": names, "filter_style": style}, "ops": ops}


class H(Hooks):
    def on_invalid(self, w, kind, thunk, desc):
        """A request outside the valid ones may be refused; if it is accepted
        the schedule it leaves behind must still be feasible (then the run
        leaves C01's jurisdiction because the model cannot follow it)."""
        try:
            thunk()
        except Exception:  # noqa: BLE001
            return "rejected"
        errs = check_feasible(w.jobs, w.real_machine_lists())
        if errs:
            w.ctx.fail("feasible_after_every_step", f"{desc} was accepted and left an infeasible schedule: " + "; ".join(errs[:3]))
        from ..util import Foreign
        raise Foreign("C09", f"invalid request accepted: {desc}")

    def after(self, w, i, kind, info):
        ctx = w.ctx
        lists = w.real_machine_lists()
        errs = check_feasible(w.jobs, lists, n_accepted=len(w.accepted))
        if errs:
            ctx.fail("feasible_after_every_step", f"after op {i} ({kind}): " + "; ".join(errs[:3]))
        complete = w.disp.schedule.is_complete()
        should = len(w.accepted) == w.model.n_ops
        if complete != should:
            ctx.fail("complete_iff_all_dispatched", f"is_complete()={complete} after {len(w.accepted)} of {w.model.n_ops} accepted dispatches")
        if kind == "dispatch":
            if any(d == 0 for _, d in [w.jobs[info[0].job_id][info[0].position_in_job]]):
                ctx.probe("zero_duration_dispatch")
            if len(info[0].machines) > 1 and info[1] != info[0].machines[0]:
                ctx.probe("flexible_choice_not_first")
            if should:
                ctx.probe("schedule_completed")


def execute(case, ctx):
    w = DWorld(case["cfg"], ctx)
    run_ops(w, case["ops"], H())
    ctx.n_dispatch = ctx.counts.get("dispatch", 0)


def nontrivial(case, ctx):
    return ctx.counts.get("dispatch", 0) >= 3
