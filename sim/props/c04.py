"""C04 - dispatching-rule solvers always finish and follow their rule."""

import random

from ..dworld import make_filter, QUERIES0
from ..instances import gen_instance, n_ops, build, as_tuple
from ..model import Model, FILTERS, check_feasible, UNDEFINED
from ..seams import SimClock, patched
from ..util import stream, Foreign, h64
from ..core import short_exc, owner_of_exception

PROP = "C04"
LEVEL = "exploration"
N = {"quick": 60000, "thorough": 1200000}
RULES = ["shortest_processing_time", "first_come_first_served", "most_work_remaining", "most_operations_remaining", "random"]
SCORES = ["spt", "fcfs", "mwkr_obs", "mopnr"]
RULE = ("seeded instance (flexible, zero durations, irregular) x rule (5 built-ins by name/enum/callable, score-based "
        "rules with and without tie-breaking over the 4 deterministic scoring functions, observer-based MWKR) x "
        "chooser (2) x filter (none, 4 built-ins, compositions; as name / enum / callable / list) x mode (stepwise with "
        "the rule consulted before each step, query bursts and RNG perturbation in between, optionally two dispatchers "
        "alternating under the module-global scorer; or end-to-end solver(instance) under a simulated clock with "
        "stalls and jumps); non-trivial: >= 3 steps; distinct = distinct (config, op list) hashes")
REAL = ["DispatchingRuleSolver", "all dispatching rules, scoring functions, score_based_rule(_with_tie_breaker)", "MostWorkRemainingScorer (module global)",
        "machine choosers", "BaseSolver.__call__", "Dispatcher", "filters"]
STUB = ["time module inside job_shop_lib._base_solver -> SimClock (seeded increments, stalls, jumps)"]
ASSUMPTIONS = ["any best operation under the rule's criterion is accepted (no tie-break demanded)",
               "most-operations-remaining: maximal under either reading (unscheduled only / unscheduled + ongoing)",
               "direct vs observer-based MWKR compared only when the observer-based rule was first called in the initial state"]


def generate(seed, tier):
    rng = stream(seed, "c04")
    big = tier == "thorough" and rng.random() < 0.15
    spec = gen_instance(rng, huge=0.05, sparse_ids=0.03, large=0.008, max_jobs=6 if big else 4, max_machines=5 if big else 4, max_ops=5 if big else 4)
    r = rng.random()
    if r < 0.45:
        rule = {"kind": "builtin", "name": rng.choice(RULES), "how": rng.choice(["str", "enum", "callable", "upper"])}
    elif r < 0.6:
        rule = {"kind": "score", "fn": rng.choice(SCORES)}
    elif r < 0.85:
        rule = {"kind": "tie", "fns": [rng.choice(SCORES) for _ in range(rng.randint(1, 3))]}
    else:
        rule = {"kind": "mwkr_pair"}
    fr = rng.random()
    if fr < 0.25:
        filt = {"names": None}  # solver default (dominated + non_idle)
    elif fr < 0.4:
        filt = {"names": []}
    elif fr < 0.7:
        filt = {"names": [rng.choice(FILTERS)], "how": rng.choice(["str", "enum", "callable"])}
    else:
        filt = {"names": [rng.choice(FILTERS) for _ in range(rng.randint(2, 3))], "how": rng.choice(["list_str", "list_enum", "list_mixed", "callable", "generator", "tuple"])}
    mode = "call" if rng.random() < 0.25 else "step"
    n = n_ops(spec)
    ops = []
    for _ in range(n + (1 if rng.random() < 0.1 else 0)):
        r = rng.random()
        if mode == "step" and r < 0.2:
            ops.append(["query", [[rng.choice(QUERIES0), 0] for _ in range(rng.randint(1, 5))]])
        if mode == "step" and rng.random() < 0.1:
            ops.append(["rng_perturb", rng.randint(0, 5), rng.randrange(1 << 30) if rng.random() < 0.3 else None])
        ops.append(["rule_step", int(rng.random() < 0.6), 0])
    two = mode == "step" and rule["kind"] in ("mwkr_pair", "score", "tie") and rng.random() < 0.4
    cfg = {"instance": spec, "rule": rule, "chooser": rng.choice(["first", "random"]), "chooser_how": rng.choice(["str", "enum", "callable"]),
           "filter": filt, "mode": mode, "two_dispatchers": two, "refused_observer_first": rng.random() < 0.08, "restricted_observers_first": rng.random() < 0.2, "call_form": rng.choice(["call", "call", "solve", "solve_with_dispatcher", "twice", "reset_and_again"]),
           "clock_seed": rng.randrange(1 << 30), "other_seed": rng.randrange(1 << 30)}
    if two:
        # a second dispatcher over a DIFFERENT instance shares the solver (and, for the observer-based rule, the
        # module-global scorer); the two are stepped alternately, in seeded random order, or one after the other
        spec2 = gen_instance(rng, sparse_ids=0.03, large=0.008, max_jobs=4, max_machines=4, max_ops=4) if rng.random() < 0.8 else spec
        cfg["instance2"] = spec2
        extra = [["rule_step", int(rng.random() < 0.6), 1] for _ in range(n_ops(spec2))]
        order = rng.choice(["alternate", "random", "sequential", "sequential_reverse"])
        steps0 = [o for o in ops if o[0] == "rule_step"]
        if order == "sequential":
            ops = ops + extra
        elif order == "sequential_reverse":
            ops = extra + ops
        elif order == "alternate":
            merged, a, b = [], list(ops), list(extra)
            while a or b:
                while a:
                    o = a.pop(0)
                    merged.append(o)
                    if o[0] == "rule_step":
                        break
                if b:
                    merged.append(b.pop(0))
            ops = merged
        else:
            merged, a, b = [], list(ops), list(extra)
            while a or b:
                src = a if (a and (not b or rng.random() < 0.5)) else b
                merged.append(src.pop(0))
            ops = merged
    return {"prop": PROP, "cfg": cfg, "ops": ops if mode == "step" else []}


def score_fn(name):
    from job_shop_lib.dispatching import rules as r

    if name == "spt":
        return r.shortest_processing_time_score
    if name == "fcfs":
        return r.first_come_first_served_score
    if name == "mopnr":
        return r.most_operations_remaining_score
    if name == "mwkr_obs":
        return r.MostWorkRemainingScorer()
    raise ValueError(name)


def build_rule(rule):
    from job_shop_lib.dispatching import rules as r

    if rule["kind"] == "builtin":
        how, name = rule["how"], rule["name"]
        if how == "enum":
            return r.DispatchingRuleType(name)
        if how == "callable":
            return r.dispatching_rule_factory(name)
        return name.upper() if how == "upper" else name
    if rule["kind"] == "score":
        return r.score_based_rule(score_fn(rule["fn"]))
    if rule["kind"] == "tie":
        return r.score_based_rule_with_tie_breaker([score_fn(f) for f in rule["fns"]])
    if rule["kind"] == "mwkr_pair":
        return r.observer_based_most_work_remaining_rule
    raise ValueError(rule)


def build_filter_arg(filt):
    from job_shop_lib.dispatching import ReadyOperationsFilterType, ready_operations_filter_factory

    names = filt["names"]
    if names is None:
        return "default"
    if not names:
        return None
    how = filt.get("how", "str")
    if how == "callable":
        return make_filter(names, "callable") if len(names) > 1 else ready_operations_filter_factory(names[0])
    if how == "str":
        return names[0]
    if how == "enum":
        return ReadyOperationsFilterType(names[0])
    if how == "list_str":
        return list(names)
    if how == "list_enum":
        return [ReadyOperationsFilterType(n) for n in names]
    if how == "generator":
        return (n for n in list(names))
    if how == "tuple":
        return tuple(ReadyOperationsFilterType(n) for n in names)
    return [n if i % 3 == 0 else (ReadyOperationsFilterType(n) if i % 3 == 1 else ready_operations_filter_factory(n)) for i, n in enumerate(names)]


def build_solver(cfg):
    from job_shop_lib.dispatching.rules import DispatchingRuleSolver, MachineChooserType, machine_chooser_factory

    ch = cfg["chooser"]
    chooser = ch if cfg["chooser_how"] == "str" else (MachineChooserType(ch) if cfg["chooser_how"] == "enum" else machine_chooser_factory(ch))
    kw = {"dispatching_rule": build_rule(cfg["rule"]), "machine_chooser": chooser}
    f = build_filter_arg(cfg["filter"])
    if f != "default":
        kw["ready_operations_filter"] = f
    if len(kw) % 2 == 1:
        # a user's own solver class (defined inside a function, as in a notebook or a test): its class name is
        # "MySolver" wherever it was defined
        class MySolver(DispatchingRuleSolver):
            def solve(self, instance, dispatcher=None):
                if dispatcher is not None or cfg.get("other_seed", 0) % 2:
                    return super().solve(instance, dispatcher)
                # a wrapping solver: it delegates to another solver object by calling it (the returned schedule
                # already carries that solver's metadata) and hands the result on
                inner = DispatchingRuleSolver(dispatching_rule=self.dispatching_rule, machine_chooser=self.machine_chooser,
                                              ready_operations_filter=self.ready_operations_filter)
                return inner(instance)

        return MySolver(**kw)
    return DispatchingRuleSolver(**kw)


def filter_names(cfg):
    n = cfg["filter"]["names"]
    return ["dominated_operations", "non_idle_machines"] if n is None else list(n)


class Side:
    """One dispatcher driven by the solver, with its model."""

    def __init__(self, spec, solver, names):
        from job_shop_lib.dispatching import Dispatcher

        self.inst = build(spec)
        self.jobs = as_tuple(spec)
        self.disp = Dispatcher(self.inst, ready_operations_filter=solver.ready_operations_filter)
        self.model = Model(self.jobs, names)
        self.steps = 0


def criterion_ok(ctx, cfg, side, sel, av, scores_before):
    """Is `sel` a best available operation under the rule's documented criterion?"""
    m = side.model
    rule = cfg["rule"]
    jp = lambda o: (o.job_id, o.position_in_job)  # noqa: E731
    uns = m.unscheduled()
    work = {j: sum(m.dur(jj, p) for jj, p in uns if jj == j) for j in range(m.nj)}
    rem_uns = {j: sum(1 for jj, _ in uns if jj == j) for j in range(m.nj)}
    name = rule.get("name") if rule["kind"] == "builtin" else None
    if name == "shortest_processing_time":
        best = min(o.duration for o in av)
        return sel.duration == best, f"duration {sel.duration}, shortest available {best}"
    if name == "first_come_first_served":
        best = min(o.position_in_job for o in av)
        return sel.position_in_job == best, f"position {sel.position_in_job}, lowest available {best}"
    if name == "most_work_remaining" or rule["kind"] == "mwkr_pair":
        best = max(work[o.job_id] for o in av)
        return work[sel.job_id] == best, f"remaining job work {work[sel.job_id]}, most among available {best}"
    if name == "most_operations_remaining":
        ok1 = rem_uns[sel.job_id] == max(rem_uns[o.job_id] for o in av)
        now = m.now()
        ok2 = False
        if now is not UNDEFINED:
            ong = m.ongoing(now)
            rem2 = {j: rem_uns[j] + sum(1 for h in ong if h[0] == j) for j in range(m.nj)}
            ok2 = rem2[sel.job_id] == max(rem2[o.job_id] for o in av)
        else:
            ok2 = True
        return ok1 or ok2, f"remaining operations of job {sel.job_id} = {rem_uns[sel.job_id]} is not maximal among available {sorted({o.job_id: rem_uns[o.job_id] for o in av}.items())}"
    if name == "random":
        return True, ""
    if rule["kind"] == "score":
        sc = scores_before[0]
        best = max(sc[o.job_id] for o in av)
        return sc[sel.job_id] == best, f"score {sc[sel.job_id]}, best available {best} (scores {list(sc)})"
    if rule["kind"] == "tie":
        tup = lambda o: tuple(s[o.job_id] for s in scores_before)  # noqa: E731
        best = max(tup(o) for o in av)
        return tup(sel) == best, f"score tuple {tup(sel)}, lexicographically best available {best}"
    return True, ""


def eval_scores(cfg, side, scorers):
    # exact Python numbers: ints stay ints (a float() detour would merge scores that differ beyond 2**53)
    return [[x.item() if hasattr(x, "item") else x for x in f(side.disp)] for f in scorers]


def execute_step(case, ctx):
    from job_shop_lib.dispatching import rules as r

    cfg = case["cfg"]
    try:
        solver = build_solver(cfg)
    except Exception as e:  # noqa: BLE001
        ctx.fail("solver_constructor_raised", f"DispatchingRuleSolver({cfg['rule']}, {cfg['chooser']}, {cfg['filter']}) raised {short_exc(e)}")
        return
    names = filter_names(cfg)
    sides = [Side(cfg["instance"], solver, names)]
    if cfg.get("refused_observer_first"):
        # an earlier refused observer request on the dispatcher the solver is going to drive
        from job_shop_lib.dispatching.feature_observers import PositionInJobObserver, FeatureType

        try:
            PositionInJobObserver(sides[0].disp, feature_types=[FeatureType.JOBS])
        except Exception:  # noqa: BLE001
            ctx.fault("refused_observer_request")
    if cfg["two_dispatchers"]:
        sides.append(Side(cfg.get("instance2", cfg["instance"]), solver, names))
    # separate scorer objects for the harness's own evaluation of scores
    rule = cfg["rule"]
    harness_scorers = []
    if rule["kind"] == "score":
        harness_scorers = [score_fn(rule["fn"])]
    elif rule["kind"] == "tie":
        harness_scorers = [score_fn(f) for f in rule["fns"]]
    if cfg.get("restricted_observers_first"):
        # observers of the types the scorer looks for, but tracking other feature levels, subscribed earlier
        from job_shop_lib.dispatching.feature_observers import DurationObserver, IsReadyObserver, FeatureType

        for s in sides:
            for cls, ft in ((DurationObserver, [FeatureType.OPERATIONS]), (IsReadyObserver, [FeatureType.MACHINES])):
                if (cfg["other_seed"] + len(ft) + (cls is IsReadyObserver)) % 3:
                    cls(s.disp, feature_types=ft)
    if rule["kind"] == "mwkr_pair":
        # first call in the initial state (the statement's precondition)
        for s in sides:
            r.observer_based_most_work_remaining_rule(s.disp)
    cur = 0
    for i, op in enumerate(case["ops"]):
        ctx.step = i
        if op[0] == "rule_step":
            cur = op[2] if len(op) > 2 and len(sides) > 1 else 0
        side = sides[cur]
        d, m = side.disp, side.model
        if op[0] == "query":
            for name, _ in op[1]:
                try:
                    getattr(d, name)()
                except Exception as e:  # noqa: BLE001
                    raise Foreign(owner_of_exception(e, "C05"), f"{name} raised {short_exc(e)}")
            ctx.count("query")
            ctx.event(i, "query", [q[0] for q in op[1]])
            continue
        if op[0] == "rng_perturb":
            if op[2] is not None:
                random.seed(op[2])
            for _ in range(op[1]):
                random.random()
            ctx.fault("rng_perturb")
            ctx.event(i, "rng_perturb", op[1], op[2])
            continue
        if m.is_complete():
            ctx.event(i, "rule_step", "noop")
            continue
        # ---- consult the rule before the step
        try:
            av = list(d.available_operations())
            raw = list(d.raw_ready_operations())
        except Exception as e:  # noqa: BLE001
            raise Foreign(owner_of_exception(e, "C07"), f"available_operations raised {short_exc(e)}")
        if not av:
            raise Foreign("C07", "available_operations() empty")
        try:
            scores = eval_scores(cfg, side, harness_scorers)
        except Exception as e:  # noqa: BLE001
            ctx.fail("scoring_function_raised", f"scoring function raised {short_exc(e)}")
            return
        consult = op[1] or rule["kind"] in ("mwkr_pair",)
        if consult:
            try:
                sel = solver.dispatching_rule(d)
            except Exception as e:  # noqa: BLE001
                own = owner_of_exception(e, "C04")
                if own in ("C04", "C11"):
                    ctx.fail("rule_raised", f"rule {rule} raised {short_exc(e)} in state nxt={m.nxt} with available {[(o.job_id, o.position_in_job) for o in av]}", exc=type(e).__name__, rule=rule["kind"])
                    return
                raise Foreign(own, short_exc(e))
            if not any(sel is o for o in av):
                ctx.fail("selected_is_available", f"rule {rule} selected {getattr(sel, 'job_id', '?')},{getattr(sel, 'position_in_job', '?')} which is not among available {[(o.job_id, o.position_in_job) for o in av]}", rule=rule["kind"])
            ok, why = criterion_ok(ctx, cfg, side, sel, av, scores)
            # job work beyond 2**24 is not exactly representable in the float32 feature matrices (known finding F17)
            inexact = any(sum(dd for _, dd in job) >= (1 << 24) for job in m.jobs)
            if not ok:
                ctx.fail("selected_is_best", f"rule {rule.get('name') or rule}: selected ({sel.job_id},{sel.position_in_job}) has {why}; state nxt={m.nxt}", rule=rule.get("name") or rule["kind"],
                         float32_inexact=inexact)
            if rule["kind"] == "mwkr_pair":
                direct = r.most_work_remaining_rule(d)
                if direct is not sel:
                    ctx.fail("direct_equals_observer_based_mwkr", f"direct MWKR selects ({direct.job_id},{direct.position_in_job}), observer-based selects ({sel.job_id},{sel.position_in_job}); state nxt={m.nxt}",
                             float32_inexact=inexact)
                ctx.probe("mwkr_pair_compared")
        # ---- the step itself
        before = list(d.job_next_operation_index)
        try:
            solver.step(d)
        except Exception as e:  # noqa: BLE001
            own = owner_of_exception(e, "C04")
            if own in ("C04", "C11", "C01"):
                ctx.fail("rule_raised", f"solver.step raised {short_exc(e)} in state nxt={m.nxt}", exc=type(e).__name__, rule=rule["kind"])
                return
            raise Foreign(own, short_exc(e))
        after = list(d.job_next_operation_index)
        moved = [j for j in range(m.nj) if after[j] != before[j]]
        if len(moved) != 1 or after[moved[0]] != before[moved[0]] + 1:
            ctx.fail("one_dispatch_per_step", f"solver.step changed next-operation indices {before} -> {after}")
            return
        j = moved[0]
        p = before[j]
        so = [s for ml in d.schedule.schedule for s in ml if s.operation.job_id == j and s.operation.position_in_job == p]
        if len(so) != 1 or so[0].machine_id not in m.machines(j, p):
            raise Foreign("C01", "dispatched operation not found in the schedule exactly once on an eligible machine")
        if (j, p) not in [(o.job_id, o.position_in_job) for o in av]:
            ctx.fail("selected_is_available", f"solver.step dispatched ({j},{p}) which was not among available {[(o.job_id, o.position_in_job) for o in av]}", rule=rule["kind"])
        if cfg["chooser"] == "first" and so[0].machine_id != m.machines(j, p)[0]:
            ctx.fail("chooser_first_takes_first_machine", f"machine chooser 'first' put ({j},{p}) on machine {so[0].machine_id}, first eligible is {m.machines(j, p)[0]}")
        m.dispatch(j, p, so[0].machine_id)
        side.steps += 1
        ctx.count("rule_step")
        ctx.sim_time = max(ctx.sim_time, m.makespan())
        ctx.states.add(h64((h64(side.jobs), tuple(after), tuple(d.machine_next_available_time))))
        ctx.event(i, "rule_step", cur, (j, p, so[0].machine_id))
        if cfg["two_dispatchers"]:
            ctx.probe("step_with_two_dispatchers_sharing_scorer")
    # ---- bounded liveness + final schedule
    for k, side in enumerate(sides):
        share = sum(1 for o in case["ops"] if o[0] == "rule_step" and (len(sides) == 1 or (o[2] if len(o) > 2 else 0) == k))
        if share >= side.model.n_ops:
            ctx.check(side.disp.schedule.is_complete(), "terminates_within_n_steps", lambda: f"{share} solver steps did not complete the {side.model.n_ops}-operation schedule")
            ctx.probe("completed_by_steps")
        lists = [[(so.operation.job_id, so.operation.position_in_job, so.start_time, so.machine_id) for so in ml] for ml in side.disp.schedule.schedule]
        errs = check_feasible(side.jobs, lists, n_accepted=side.steps)
        if errs:
            raise Foreign("C01", "; ".join(errs[:2]))


def execute_call(case, ctx):
    import job_shop_lib._base_solver as bs

    cfg = case["cfg"]
    try:
        solver = build_solver(cfg)
    except Exception as e:  # noqa: BLE001
        ctx.fail("solver_constructor_raised", f"DispatchingRuleSolver(...) raised {short_exc(e)}")
        return
    inst = build(cfg["instance"])
    jobs = as_tuple(cfg["instance"])
    clock = SimClock(cfg["clock_seed"], ctx)
    calls = {"n": 0}
    orig_step = solver.step
    cap_box = [n_ops(cfg["instance"]) + 1]

    class Runaway(Exception):
        pass

    def counted_step(dispatcher):
        calls["n"] += 1
        if calls["n"] > cap_box[0]:
            raise Runaway()
        return orig_step(dispatcher)

    solver.step = counted_step
    ctx.step = 0
    form = cfg.get("call_form", "call")
    with patched(bs, "time", clock):
        try:
            if form == "solve":
                sched = solver.solve(inst)
            elif form == "solve_with_dispatcher":
                from job_shop_lib.dispatching import Dispatcher

                dd = Dispatcher(inst, ready_operations_filter=solver.ready_operations_filter)
                for _ in range(cfg["other_seed"] % 3):  # the dispatcher handed over may already have made progress
                    if not dd.schedule.is_complete():
                        orig_step(dd)
                cap_box[0] = max(1, cap_box[0] - 0)  # the cap still bounds the remaining steps
                sched = solver.solve(inst, dd)
            elif form == "reset_and_again":
                # one dispatcher solved, reset and solved again by the same solver (a second run of an experiment)
                from job_shop_lib.dispatching import Dispatcher

                dd = Dispatcher(inst, ready_operations_filter=solver.ready_operations_filter)
                solver.solve(inst, dd)
                dd.reset()
                calls["n"] = 0
                sched = solver.solve(inst, dd)
            elif form == "twice":
                # the same solver object on another instance first (a solver is reusable)
                other = build({"jobs": [[[[0], 2], [[1], 1]], [[[1], 3]], [[[0], 1]]], "name": "other"})
                main_cap, cap_box[0] = cap_box[0], 5
                solver(other)
                calls["n"], cap_box[0] = 0, main_cap
                sched = solver(inst)
            else:
                sched = solver(inst)
        except Runaway:
            ctx.fail("terminates_within_n_steps", f"solver(instance) made more than {cap_box[0]} steps on a {cap_box[0] - 1}-operation instance")
            return
        except Exception as e:  # noqa: BLE001
            own = owner_of_exception(e, "C04")
            if own in ("C04", "C11"):
                ctx.fail("rule_raised", f"solver(instance) raised {short_exc(e)}", exc=type(e).__name__, rule=cfg["rule"]["kind"])
                return
            raise Foreign(own, short_exc(e))
    ctx.count("rule_step", calls["n"])
    ctx.count("solver_call")
    ctx.event(0, "call", calls["n"], clock.reads)
    lists = [[(so.operation.job_id, so.operation.position_in_job, so.start_time, so.machine_id) for so in ml] for ml in sched.schedule]
    errs = check_feasible(jobs, lists)
    ctx.check(not errs and sched.is_complete(), "call_returns_complete_feasible_schedule", lambda: f"solver(instance): complete={sched.is_complete()} errors={errs[:3]}")
    md = sched.metadata
    if form in ("solve", "solve_with_dispatcher", "reset_and_again"):
        ctx.sim_time = sched.makespan()
        return  # solve() promises the schedule, the metadata is written by __call__
    et = md.get("elapsed_time")
    ctx.check(et is not None and et >= 0, "elapsed_time_non_negative", lambda: f"metadata['elapsed_time'] = {et!r} (simulated clock advanced by {clock.now - clock.start:.3f}s over {clock.reads} reads)")
    ctx.check(md.get("solved_by") == type(solver).__name__, "solved_by_is_class_name", lambda: f"metadata['solved_by'] = {md.get('solved_by')!r}, class {type(solver).__name__}")
    ctx.sim_time = sched.makespan()


def execute(case, ctx):
    if case["cfg"]["mode"] == "call":
        return execute_call(case, ctx)
    return execute_step(case, ctx)


def nontrivial(case, ctx):
    return ctx.counts.get("rule_step", 0) >= 3


def simplify(case):
    cfg = case["cfg"]
    if cfg["filter"]["names"] != []:
        yield {**case, "cfg": {**cfg, "filter": {"names": []}}}
    if cfg["two_dispatchers"]:
        yield {**case, "cfg": {**cfg, "two_dispatchers": False}}
        if cfg.get("instance2") not in (None, cfg["instance"]):
            from ..instances import shrink_candidates
            for sp in shrink_candidates(cfg["instance2"]):
                yield {**case, "cfg": {**cfg, "instance2": sp}}
    if cfg["rule"]["kind"] == "tie" and len(cfg["rule"]["fns"]) > 1:
        for k in range(len(cfg["rule"]["fns"])):
            yield {**case, "cfg": {**cfg, "rule": {"kind": "tie", "fns": cfg["rule"]["fns"][:k] + cfg["rule"]["fns"][k + 1:]}}}
    if cfg["chooser"] != "first":
        yield {**case, "cfg": {**cfg, "chooser": "first"}}
