"""C20 - Gantt charts and animations show the schedule that was built."""

import os
import random
import shutil
import tempfile
import warnings

from ..instances import gen_instance, n_ops, build, as_tuple
from ..model import Model
from ..seams import patched
from ..util import stream, h64
from ..core import short_exc

PROP = "C20"
LEVEL = "exploration"
N = {"quick": 1500, "thorough": 30000}
RULE = ("(a) animation runs: seeded history of length 1-15 or 100-130 fed to create_gantt_chart_gif / "
        "create_gantt_chart_video / GanttChartCreator.create_gif with a colour-coding stub plotter (frame colour = "
        "number of scheduled operations), faults: seeded permutation of os.listdir results, stale frames left in the "
        "frames directory; frames captured at the imageio.mimsave seam (thorough: also decoded from the really written "
        "GIF); short histories sometimes with the real plotter whose bars are read per frame; (b) chart runs: "
        "plot_gantt_chart on partial / final schedules of seeded histories (zero durations, flexible, unused machines, "
        "xlim given or not), artists compared with the schedule; non-trivial: >= 3 operations shown; distinct = "
        "distinct (config, history) hashes")
REAL = ["create_gantt_chart_gif / create_gantt_chart_video / create_gantt_chart_frames / create_gif_from_frames / create_video_from_frames",
        "GanttChartCreator", "plot_gantt_chart", "get_partial_gantt_chart_plotter", "Dispatcher + HistoryObserver", "matplotlib (Agg), PNG writer/reader", "real file system (temp dir)"]
STUB = ["plot_function -> 8x8 px figure encoding the frame's operation count (stub runs)", "imageio.mimsave inside the GIF module -> capture (quick tier)",
        "os.listdir inside the GIF module -> seeded permutation (POSIX leaves the order unspecified)"]
ASSUMPTIONS = ["rendering itself (matplotlib rasterisation, ffmpeg) is not modelled", "axis clause skipped when makespan and xlim are 0"]
STATE_MEASURE = "distinct (instance hash, history length, api, fault set) tuples"


def long_instance(rng):
    nj = 5
    m = rng.randint(21, 26)
    return {"jobs": [[[[rng.randrange(4)], rng.randint(1, 4)] for _ in range(m)] for _ in range(nj)], "name": "long"}


def generate(seed, tier):
    rng = stream(seed, "c20")
    r = rng.random()
    if r < 0.45:
        spec = gen_instance(rng, max_jobs=4, max_machines=4, max_ops=4)
        n = n_ops(spec)
        k = n if rng.random() < 0.5 else rng.randint(0, n)
        return {"prop": PROP, "kind": "chart", "cfg": {"instance": spec, "xlim": rng.choice([None, None, "makespan+", "makespan-", 50]), "cmap": rng.choice(["viridis", "tab10"]),
                                                       "two_charts": rng.random() < 0.3},
                "ops": [["dispatch", rng.randrange(64), rng.randrange(64), 0] for _ in range(k)]}
    long = r > 0.86
    if long:
        spec = long_instance(rng)
        n = rng.randint(100, min(130, n_ops(spec)))
    else:
        spec = gen_instance(rng, max_jobs=4, max_machines=4, max_ops=5)
        n = rng.randint(1, min(15, n_ops(spec)))
    api = rng.choice(["gif", "gif", "video", "creator_gif", "solver_gif"])
    cfg = {"instance": spec, "api": api, "plot": "real" if (not long and n <= 6 and rng.random() < 0.5) else "stub",
           "earlier_episode": rng.randint(1, 6) if rng.random() < 0.3 else 0,
           "then_shorter": rng.random() < 0.2, "precreate_dir": rng.random() < 0.4,
           "frames_dir_name": rng.choice(["frames", "la40_gantt_chart_frames", "run7/frames", "frames_2024"]),
           "out_name": rng.choice(["out", "ft06_gantt_chart", "v2"]),
           "listdir_seed": rng.randrange(1 << 30) if rng.random() < 0.6 else None,
           "stale": rng.choice([0, 0, 3, 12, 105]) if rng.random() < 0.4 else 0,
           "remove_frames": rng.random() < 0.7, "plot_current_time": rng.random() < 0.5,
           "decode_real_gif": tier == "thorough" and api in ("gif", "creator_gif") and rng.random() < 0.3}
    return {"prop": PROP, "kind": "anim", "cfg": cfg, "ops": [["dispatch", rng.randrange(64), rng.randrange(64), 0] for _ in range(n)]}


# ------------------------------------------------------------------ charts

def bars_of(ax):
    out = []
    for c in ax.collections:
        for p in c.get_paths():
            v = p.vertices
            xs, ys = [float(x) for x in v[:, 0]], [float(y) for y in v[:, 1]]
            out.append((min(xs), max(xs), min(ys), max(ys), tuple(round(float(x), 6) for x in c.get_facecolor()[0])))
    return out


def check_bars(ctx, ax, hist, jobs, when, lab=lambda j: f"Job {j}"):
    """hist: model history entries (j, p, m, s, e) that must be drawn.  The
    legend is the key: every bar must carry the legend colour of its job."""
    bars = bars_of(ax)
    ctx.check(len(bars) == len(hist), "one_bar_per_scheduled_operation", lambda: f"{when}: {len(bars)} bars for {len(hist)} scheduled operations")
    geo_want = sorted((float(s), float(e), 1.0 + 10 * m, 10.0 + 10 * m) for (j, p, m, s, e) in hist)
    geo_got = sorted(b[:4] for b in bars)
    ctx.check(geo_got == geo_want, "bar_spans_start_to_end_in_machine_row", lambda: f"{when}: bars (x0, x1, y0, y1) {geo_got}, schedule gives {geo_want}")
    if not hist:
        return
    leg = ax.get_legend()
    labels = [t.get_text() for t in leg.get_texts()] if leg else []
    handles = [tuple(round(float(x), 6) for x in h.get_facecolor()) for h in leg.legend_handles] if leg else []
    jobs_present = sorted({h[0] for h in hist})
    ctx.check(labels == [lab(j) for j in jobs_present], "legend_lists_jobs_present", lambda: f"{when}: legend labels {labels}, jobs drawn {jobs_present}")
    if labels != [lab(j) for j in jobs_present]:
        return
    colour = dict(zip(jobs_present, handles))
    ctx.check(len(set(handles)) == len(handles), "colour_identifies_job", lambda: f"{when}: legend colours are not distinct: {colour}")
    want = sorted((float(s), float(e), 1.0 + 10 * m, 10.0 + 10 * m, colour[j]) for (j, p, m, s, e) in hist)
    got = sorted(bars)
    ctx.check(got == want, "bars_coloured_by_job_as_in_legend", lambda: f"{when}: bars with colours {got} != schedule with legend colours {want}")


def execute_chart(case, ctx):
    import matplotlib.pyplot as plt
    from job_shop_lib.dispatching import Dispatcher
    from job_shop_lib.visualization import plot_gantt_chart

    cfg = case["cfg"]
    inst = build(cfg["instance"])
    jobs = as_tuple(cfg["instance"])
    d = Dispatcher(inst)
    m = Model(jobs)
    for i, op in enumerate(case["ops"]):
        ready = m.ready()
        if not ready:
            break
        j, p = ready[op[1] % len(ready)]
        ms = m.machines(j, p)
        mm = ms[op[2] % len(ms)]
        d.dispatch(inst.jobs[j][p], mm)
        m.dispatch(j, p, mm)
        ctx.count("dispatch")
    ctx.step = len(case["ops"])
    mk = m.makespan()
    other = None
    if len(m.hist) >= 2 and cfg.get("two_charts"):
        # a second chart (of a different, shorter schedule) is drawn while the first is still open
        d2 = Dispatcher(build(cfg["instance"]))
        m2 = Model(jobs)
        for (j, p, mm, _, _) in m.hist[: len(m.hist) // 2]:
            d2.dispatch(d2.instance.jobs[j][p], mm)
            m2.dispatch(j, p, mm)
        other = (d2, m2)
    xlim = cfg["xlim"]
    if xlim == "makespan-":
        xlim = max(1, mk // 2)  # a requested limit below the makespan: the axis ends there (a zoom on the beginning)
    if xlim == "makespan+":
        xlim = mk + 7
        if len(m.hist) % 2:
            import numpy as np

            xlim = np.int64(xlim)  # e.g. np.max over several makespans for a shared axis
            ctx.probe("numpy_xlim")
    # custom legend labels (public parameter), derived from the case without an extra PRNG draw
    use_labels = cfg.get("job_labels", (len(case["ops"]) + len(jobs)) % 3 == 0)
    job_labels = [f"order <{j}>" for j in range(len(jobs))] if use_labels else None
    lab = (lambda j: job_labels[j]) if use_labels else (lambda j: f"Job {j}")
    with warnings.catch_warnings():
        warnings.simplefilter("ignore")
        try:
            if job_labels is not None:
                fig, ax = plot_gantt_chart(d.schedule, xlim=xlim, cmap_name=cfg["cmap"], job_labels=job_labels)
                ctx.probe("custom_job_labels")
                if m.hist and min(h[0] for h in m.hist) > 0:
                    ctx.probe("custom_job_labels_lowest_job_absent")
            else:
                fig, ax = plot_gantt_chart(d.schedule, xlim=xlim, cmap_name=cfg["cmap"])
        except Exception as e:  # noqa: BLE001
            ctx.fail("plot_raised", f"plot_gantt_chart raised {short_exc(e)} on a schedule with {len(m.hist)} operations, makespan {mk}")
            return
    fig2 = None
    try:
        if other is not None:
            with warnings.catch_warnings():
                warnings.simplefilter("ignore")
                fig2, ax2 = plot_gantt_chart(other[0].schedule, cmap_name=cfg["cmap"])
            check_bars(ctx, ax2, other[1].hist, jobs, f"second chart ({len(other[1].hist)} dispatches) drawn while the first is open")
            ctx.probe("two_charts_alive")
        when = f"plot_gantt_chart after {len(m.hist)} dispatches (xlim={xlim})" + (" re-read after a second chart was drawn" if other else "")
        check_bars(ctx, ax, m.hist, jobs, when + (" with job_labels" if use_labels else ""), lab)
        end = xlim if xlim is not None else mk
        if end > 0:
            ctx.check(tuple(ax.get_xlim()) == (0.0, float(end)), "axis_ends_at_makespan_or_limit", lambda: f"{when}: x-limits {ax.get_xlim()}, expected (0, {end})")
            ticks = list(ax.get_xticks())
            ctx.check(bool(ticks) and ticks[-1] == end, "axis_ends_at_makespan_or_limit", lambda: f"{when}: last tick {ticks[-1] if ticks else None}, expected {end}")
        if cfg["xlim"] is None and mk > 0:
            # the same (possibly partial) schedule through the chart creator attached to the dispatcher, the way an
            # environment renders mid-episode: no limit requested, so the time axis ends at the makespan
            from job_shop_lib.visualization import GanttChartCreator

            fig3 = None
            with warnings.catch_warnings():
                warnings.simplefilter("ignore")
                try:
                    fig3 = GanttChartCreator(d).plot_gantt_chart()
                    ax3 = fig3.axes[0]
                except Exception as e:  # noqa: BLE001
                    ctx.fail("plot_raised", f"GanttChartCreator.plot_gantt_chart raised {short_exc(e)} on a schedule with {len(m.hist)} operations, makespan {mk}")
            if fig3 is not None:
                try:
                    when3 = f"GanttChartCreator.plot_gantt_chart after {len(m.hist)} of {len(m.ops)} dispatches (current time {m.now()})"
                    check_bars(ctx, ax3, m.hist, jobs, when3)
                    ctx.check(tuple(ax3.get_xlim()) == (0.0, float(mk)), "axis_ends_at_makespan_or_limit", lambda: f"{when3}: x-limits {ax3.get_xlim()}, expected (0, {mk})")
                    if m.now() < mk:
                        ctx.probe("creator_chart_mid_episode")
                finally:
                    plt.close(fig3)
        ctx.event(0, "chart", len(m.hist), mk, h64(bars_of(ax)))
        ctx.states.add(h64((h64(cfg["instance"]["jobs"]), len(m.hist), "chart", xlim)))
        if any(h[3] == h[4] for h in m.hist):
            ctx.probe("zero_duration_bar")
    finally:
        plt.close(fig)
        if fig2 is not None:
            plt.close(fig2)
    ctx.sim_time = mk


# -------------------------------------------------------------- animations

class ListdirProxy:
    """Stands in for the ``os`` module inside the GIF module."""

    def __init__(self, seed, ctx):
        self._rng = random.Random(seed) if seed is not None else None
        self._ctx = ctx

    def __getattr__(self, name):
        return getattr(os, name)

    def listdir(self, path):
        names = sorted(os.listdir(path))
        if self._rng is not None:
            self._rng.shuffle(names)
            self._ctx.fault("listdir_reorder")
        return names


class ImageioProxy:
    def __init__(self, real, sink, really_write):
        self._real, self._sink, self._write = real, sink, really_write

    def __getattr__(self, name):
        return getattr(self._real, name)

    def mimsave(self, path, images, **kw):
        self._sink.append((path, [im for im in images], kw))
        if self._write:
            return self._real.mimsave(path, images, **kw)


def stub_plotter(counter):
    import matplotlib.pyplot as plt

    def plot(schedule, makespan=None, available_operations=None, current_time=None):
        k = schedule.num_scheduled_operations
        counter.append(k)
        fig = plt.figure(figsize=(0.2, 0.2), dpi=20)
        fig.patch.set_facecolor(((k % 256) / 255, (k // 256) / 255, 0.0))
        return fig

    return plot


def decode(im):
    px = im[0, 0]
    return int(px[0]) + 256 * int(px[1])


def execute_anim(case, ctx):
    import imageio
    import matplotlib.pyplot as plt
    import job_shop_lib.visualization._gantt_chart_video_and_gif_creation as gm
    from job_shop_lib.dispatching import Dispatcher, HistoryObserver
    from job_shop_lib.visualization import GanttChartCreator, create_gantt_chart_gif, create_gantt_chart_video, get_partial_gantt_chart_plotter
    from job_shop_lib.dispatching.rules import DispatchingRuleSolver

    cfg = case["cfg"]
    inst = build(cfg["instance"])
    jobs = as_tuple(cfg["instance"])
    d = Dispatcher(inst)
    creator = GanttChartCreator(d) if cfg["api"] == "creator_gif" else None
    hist_obs = d.create_or_get_observer(HistoryObserver)
    m = Model(jobs)
    if cfg.get("earlier_episode"):
        # an earlier (abandoned) episode on the same dispatcher / creator, then reset(): the animation must show
        # the history that was recorded after the reset
        for k in range(cfg["earlier_episode"]):
            ready = m.ready()
            if not ready:
                break
            j, p = ready[(k * 5 + 1) % len(ready)]
            mm = m.machines(j, p)[-1]
            d.dispatch(inst.jobs[j][p], mm)
            m.dispatch(j, p, mm)
        d.reset()
        m.reset()
        ctx.fault("restart")
        ctx.probe("animation_after_reset")
    for op in case["ops"]:
        ready = m.ready()
        if not ready:
            break
        j, p = ready[op[1] % len(ready)]
        ms = m.machines(j, p)
        mm = ms[op[2] % len(ms)]
        d.dispatch(inst.jobs[j][p], mm)
        m.dispatch(j, p, mm)
        ctx.count("dispatch")
    n = len(m.hist)
    if n == 0:
        return
    ctx.step = len(case["ops"])
    tmp = tempfile.mkdtemp(prefix="jslsim-")
    sink = []
    counter = []
    frames_bars = []
    frames_xlim = []
    cwd = os.getcwd()
    try:
        # the library only ever sees relative, seed-determined names (the random temp dir is the cwd)
        os.chdir(tmp)
        frames_dir = cfg.get("frames_dir_name") or "frames"
        if "/" in frames_dir:
            os.makedirs(os.path.dirname(frames_dir), exist_ok=True)
        if cfg.get("precreate_dir") and not cfg["stale"]:
            os.makedirs(frames_dir, exist_ok=True)  # the caller created the (empty) frames directory beforehand
        if cfg["stale"] and cfg["plot"] == "stub":  # stale frames come from an earlier run with the same plotter (same image size)
            # frames left behind by an earlier run that kept its frames
            os.makedirs(frames_dir, exist_ok=True)
            for k in range(1, cfg["stale"] + 1):
                fig = plt.figure(figsize=(0.2, 0.2), dpi=20)
                fig.patch.set_facecolor((250 / 255, 250 / 255, 1.0))
                # written exactly as an earlier run of the library would have left them
                fig.savefig(f"{frames_dir}/frame_{k:02d}.png", bbox_inches="tight")
                plt.close(fig)
            ctx.fault("stale_frames_dir")
        if cfg["plot"] == "stub":
            plot = stub_plotter(counter)
        else:
            real = get_partial_gantt_chart_plotter()

            def plot(schedule, makespan=None, available_operations=None, current_time=None):
                with warnings.catch_warnings():
                    warnings.simplefilter("ignore")
                    fig = real(schedule, makespan, available_operations, current_time)
                frames_bars.append(bars_of(fig.axes[0]))
                frames_xlim.append(tuple(fig.axes[0].get_xlim()))
                counter.append(schedule.num_scheduled_operations)
                return fig
            ctx.probe("real_plotter_frames")
        out = (cfg.get("out_name") or "out") + (".gif" if cfg["api"] != "video" else ".mp4")
        kw = dict(fps=1, remove_frames=cfg["remove_frames"], frames_dir=frames_dir, plot_current_time=cfg["plot_current_time"])
        history = list(hist_obs.history)
        with patched(gm, "os", ListdirProxy(cfg["listdir_seed"], ctx)), patched(gm, "imageio", ImageioProxy(imageio, sink, cfg["decode_real_gif"])):
            with warnings.catch_warnings():
                warnings.simplefilter("ignore")
                try:
                    if cfg["api"] == "gif":
                        create_gantt_chart_gif(inst, out, plot_function=plot, schedule_history=history, **kw)
                    elif cfg["api"] == "video":
                        create_gantt_chart_video(inst, out, plot_function=plot, schedule_history=history, **kw)
                    elif cfg["api"] == "creator_gif":
                        creator.partial_gantt_chart_plotter = plot
                        creator.gif_config = dict(gif_path=out, **kw)
                        creator.create_gif()
                    else:  # the solver variant records its own history
                        solver = DispatchingRuleSolver(dispatching_rule="first_come_first_served")
                        create_gantt_chart_gif(inst, out, solver=solver, plot_function=plot, **kw)
                        n = n_ops(cfg["instance"])
                except Exception as e:  # noqa: BLE001
                    ctx.fail("animation_raised", f"{cfg['api']} over a {n}-operation history raised {short_exc(e)}", exc=type(e).__name__)
                    return
        ctx.count("animation")
        if cfg.get("then_shorter") and cfg["api"] == "gif" and cfg["plot"] == "stub" and n >= 3 and not cfg["stale"]:
            ctx.probe("frames_directory_existed_before" if cfg.get("precreate_dir") else "frames_directory_created_by_library")
            first_images = [im for im in sink[-1][1]] if sink else []
            n2 = max(1, n // 2)
            with patched(gm, "os", ListdirProxy(cfg["listdir_seed"], ctx)), patched(gm, "imageio", ImageioProxy(imageio, sink, False)):
                with warnings.catch_warnings():
                    warnings.simplefilter("ignore")
                    counter.clear()
                    try:
                        create_gantt_chart_gif(inst, out, plot_function=plot, schedule_history=history[:n2], **kw)
                    except Exception as e:  # noqa: BLE001
                        ctx.fail("animation_raised", f"second (shorter) animation through the same frames directory raised {short_exc(e)}", exc=type(e).__name__)
                        return
            shown2 = [decode(im) for im in sink[-1][1]]
            if cfg["remove_frames"]:
                ctx.check(shown2 == list(range(1, n2 + 1)), "kth_frame_shows_first_k_operations",
                          lambda: f"a {n2}-operation history animated after a {n}-operation one through the same frames directory (frames removed in between) shows {shown2}", long=False)
            else:
                ctx.check(shown2[:n2] == list(range(1, n2 + 1)), "kth_frame_shows_first_k_operations", lambda: f"second animation: first {n2} frames show {shown2[:n2]}", long=False)
            ctx.probe("second_animation_same_directory")
            counter[:] = list(range(1, n + 1))
            del sink[-1]
        if sink:
            path, images, _ = sink[-1]
        elif os.path.exists(out) and cfg["api"] != "video":
            # the library wrote the file through another imageio entry point: decode what was really written
            path, images = out, list(imageio.mimread(out, memtest=False))
        else:
            ctx.fail("animation_written", f"{cfg['api']}: nothing was handed to imageio.mimsave and no file {os.path.basename(out)} exists")
            return
        shown = [decode(im) for im in images] if cfg["plot"] == "stub" else None
        ctx.event(0, cfg["api"], n, len(images), h64(shown) if shown else len(frames_bars))
        ctx.states.add(h64((h64(cfg["instance"]["jobs"]), n, cfg["api"], cfg["listdir_seed"] is not None, cfg["stale"])))
        ctx.check(len(images) >= n, "one_frame_per_dispatch", lambda: f"{len(images)} frames for a history of {n} dispatches")
        ctx.check(counter == list(range(1, n + 1)), "frames_produced_by_replaying_history", lambda: f"plot function saw schedules with {counter[:12]}... operations, expected 1..{n}")
        if shown is not None:
            bad = [(k + 1, shown[k]) for k in range(min(n, len(shown))) if shown[k] != k + 1]
            ctx.check(not bad, "kth_frame_shows_first_k_operations",
                      lambda: f"history of {n} dispatches via {cfg['api']}: frame {bad[0][0]} shows {bad[0][1]} scheduled operations (first wrong frames: {bad[:5]})",
                      long=n >= 100)
            if cfg["decode_real_gif"] and os.path.exists(path):
                back = imageio.mimread(path, memtest=False)
                dec = [decode(b) for b in back]
                bad = [(k + 1, dec[k]) for k in range(min(n, len(dec))) if dec[k] != k + 1]
                ctx.check(len(dec) >= n and not bad, "kth_frame_shows_first_k_operations", lambda: f"decoded GIF: {len(dec)} frames, wrong frames {bad[:5]}", long=n >= 100)
                ctx.probe("real_gif_decoded")
        else:
            for k in range(n):
                if cfg["api"] == "solver_gif":  # the solver chose its own history: only the count is known
                    ctx.check(len(frames_bars[k]) == k + 1, "kth_frame_shows_first_k_operations", lambda: f"real plotter frame {k + 1} has {len(frames_bars[k])} bars", long=False)
                    continue
                want = sorted((float(s), float(e), 1.0 + 10 * mm) for (_, _, mm, s, e) in m.hist[: k + 1])
                got = sorted((b[0], b[1], b[2]) for b in frames_bars[k])
                ctx.check(got == want, "kth_frame_shows_first_k_operations", lambda: f"real plotter frame {k + 1}: bars {got}, first {k + 1} history entries {want}", long=False)
                final = m.makespan()
                if final > 0:
                    # every frame is drawn on the time axis of the finished schedule: no bar may be cut off
                    ctx.check(frames_xlim[k][1] >= max(b[1] for b in frames_bars[k]) and frames_xlim[k] == (0.0, float(final)), "frame_axis_ends_at_final_makespan",
                              lambda: f"real plotter frame {k + 1}: x-axis {frames_xlim[k]}, makespan of the recorded history {final}")
        if n >= 100:
            ctx.probe("history_100_plus")
    finally:
        os.chdir(cwd)
        plt.close("all")
        shutil.rmtree(tmp, ignore_errors=True)
    ctx.sim_time = m.makespan()


def execute(case, ctx):
    if case["kind"] == "chart":
        return execute_chart(case, ctx)
    return execute_anim(case, ctx)


def nontrivial(case, ctx):
    return ctx.counts.get("dispatch", 0) >= 3


def simplify(case):
    cfg = case["cfg"]
    if case["kind"] == "anim":
        for key, val in (("listdir_seed", None), ("stale", 0), ("api", "gif"), ("plot_current_time", False), ("remove_frames", True)):
            if cfg[key] != val:
                yield {**case, "cfg": {**cfg, key: val}}
