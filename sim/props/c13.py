"""C13 - dense rewards add up to the sparse objective (dispatcher part; the
environment-step part lives in the same module and uses the env world)."""

from ..dworld import DWorld, Hooks, run_ops, gen_dispatch_ops, gen_filter, mark_manual
from ..instances import gen_instance, n_ops
from ..util import stream

PROP = "C13"
LEVEL = "exploration"
N = {"quick": 40000, "thorough": 800000}
RULE = ("seeded instance (flexible, zero durations) x filter x dispatch history with rejected requests and resets, "
        "both reward observers subscribed (either creation order, sometimes created mid-history after a reset); "
        "after every op: one reward per accepted dispatch, each <= 0, running sums = -makespan / -idle time by the "
        "reference model; 25% of the runs drive a SingleJobShopGraphEnv instead and compare step() rewards; "
        "non-trivial: >= 3 dispatches; distinct = distinct (config, op list) hashes")
REAL = ["MakespanReward", "IdleTimeReward", "Dispatcher", "SingleJobShopGraphEnv.step (env runs)"]
STUB = []
ASSUMPTIONS = ["idle time = sum over machines of gaps before each scheduled operation (up to the machine's last operation)"]


def generate(seed, tier):
    rng = stream(seed, "c13")
    big = tier == "thorough" and rng.random() < 0.15
    if rng.random() < 0.25:
        from .. import eworld

        return eworld.gen_env_case(rng, PROP, big=big, rewards_focus=True)
    spec = gen_instance(rng, huge=0.05, sparse_ids=0.03, large=0.008, max_jobs=6 if big else 4, max_machines=5 if big else 4, max_ops=6 if big else 4)
    names, style = gen_filter(rng, None, p_none=0.5, user=0.15)
    obs = [{"t": "makespan_reward"}, {"t": "idle_reward"}]
    if rng.random() < 0.5:
        obs.reverse()
    faulty = rng.random() < 0.5
    dup = [(0.06, lambda r: ["dup_reward", r.randrange(2)])] if stream(seed, "c13-dup").random() < 0.3 else None
    ops = gen_dispatch_ops(rng, n_ops(spec), p_fork=0.03 if rng.random() < 0.3 else 0.0, p_query=0.05, p_invalid=0.1 if faulty else 0.0, p_reset=0.05 if faulty else 0.0,
                           episodes=2 if rng.random() < 0.2 else 1, extra=dup)
    mark_manual(stream(seed, "c13-manual"), obs, 0.12)
    cfg = {"instance": spec, "filter": names, "filter_style": style, "observers": obs, "observers_fixed": True}
    if rng.random() < 0.15:
        cfg["late_after"] = rng.randint(1, 3)  # the reward observers are attached after a few dispatches
    return {"prop": PROP, "kind": "dispatch", "cfg": cfg, "ops": ops}


def check_rewards(w, ctx, mk, idle, when):
    m = w.model
    k = len(m.hist)
    for name, o, total in (("MakespanReward", mk, -m.makespan()), ("IdleTimeReward", idle, -m.idle_time())):
        if o is None:
            continue
        r = list(o.rewards)
        ctx.check(len(r) == k, "one_reward_per_dispatch", lambda: f"{when}: {name} has {len(r)} rewards after {k} accepted dispatches", reward=name)
        ctx.check(all(x <= 0 for x in r), "rewards_non_positive", lambda: f"{when}: {name}.rewards = {r}", reward=name)
        ctx.check(sum(r) == total, "reward_sum_equals_objective", lambda: f"{when}: sum({name}.rewards) = {sum(r)} ({r}), objective = {total}", reward=name)
        ctx.check(o.last_reward == (r[-1] if r else 0), "last_reward_is_last", lambda: f"{when}: {name}.last_reward = {o.last_reward}, rewards = {r}", reward=name)


class H(Hooks):
    def __init__(self, w):
        self.on_fork(w)
        self.prev_mk = 0

    def on_fork(self, w):
        self.mk = next((o for s, o in w.observers if s["t"] == "makespan_reward"), None)
        self.idle = next((o for s, o in w.observers if s["t"] == "idle_reward"), None)

    def extra(self, w, i, op):
        if op[0] != "dup_reward":
            return super().extra(w, i, op)
        # "create it, or use the existing one": a second reward observer of a subscribed type is requested; whatever the
        # library answers (it refuses: singleton), the subscribed observer goes on emitting one reward per dispatch
        from job_shop_lib.reinforcement_learning import MakespanReward, IdleTimeReward

        cls = (MakespanReward, IdleTimeReward)[op[1]]
        w.ctx.fault("duplicate_reward_observer_requested")
        try:
            cls(w.disp)
        except Exception:  # noqa: BLE001 - refused
            return "refused"
        return "accepted"

    def after(self, w, i, kind, info):
        ctx = w.ctx
        check_rewards(w, ctx, self.mk, self.idle, f"after op {i} ({kind})")
        if kind == "dispatch":
            ms = w.model.makespan()
            if ms == self.prev_mk and len(w.model.hist) > 1:
                ctx.probe("dispatch_not_extending_makespan")
            self.prev_mk = ms
            o, mm, _ = info
            if len(o.machines) > 1 and w.model.mavail[mm] > min(w.model.mavail[x] for x in o.machines):
                ctx.probe("flexible_choice_of_later_machine")
        if kind == "reset":
            self.prev_mk = 0


def execute(case, ctx):
    if case.get("kind") == "env":
        from .. import eworld

        return eworld.execute_env_case(case, ctx, oracles=("rewards",))
    cfg = case["cfg"]
    if cfg.get("late_after"):
        # observers attached to a dispatcher that already holds a partial schedule: the sums are only promised to
        # equal the objective for whole episodes, i.e. from the next reset on (then everything is as new)
        w = DWorld({**cfg, "observers": []}, ctx)
        for op in [o for o in case["ops"] if o[0] == "dispatch"][: cfg["late_after"]]:
            r = w.resolve_dispatch(op[1], op[2], 0)
            if r is None:
                break
            w.do_dispatch(*r)
        for ospec in cfg["observers"]:
            if w.add_observer(ospec, owner="C13") is None:
                return
        ctx.probe("reward_observers_attached_mid_history")
        h = H(w)
        armed = False
        orig = h.after

        prev = {"MakespanReward": w.model.makespan(), "IdleTimeReward": w.model.idle_time()}
        seen = {"MakespanReward": 0, "IdleTimeReward": 0}

        def after(wx, i, kind, info):
            nonlocal armed
            if kind == "reset":
                armed = True
            if armed:
                return orig(wx, i, kind, info)
            if kind == "fork":
                h.on_fork(wx)
            if kind != "dispatch":
                return
            # before the first reset only what the statement implies for consecutive observed dispatches is demanded:
            # the difference of two running sums, i.e. each reward is minus the growth of the objective; for the very
            # first observed dispatch both readings (sum from the attachment on / sum of the whole schedule) are taken
            for name, o, now in (("MakespanReward", h.mk, wx.model.makespan()), ("IdleTimeReward", h.idle, wx.model.idle_time())):
                r = list(o.rewards)
                seen[name] += 1
                ctx.check(len(r) == seen[name], "one_reward_per_dispatch", lambda: f"op {i}: {name} attached mid-history has {len(r)} rewards after {seen[name]} dispatches since", reward=name)
                if r:
                    ok = {-(now - prev[name])} | ({-now} if seen[name] == 1 else set())
                    ctx.check(r[-1] in ok, "reward_is_minus_objective_growth",
                              lambda: f"op {i}: {name} attached mid-history emitted {r[-1]} for dispatch #{seen[name]} since; the objective went {prev[name]} -> {now}", reward=name)
                prev[name] = now

        h.after = after
        ops = list(case["ops"]) + [["reset"]] + [o for o in case["ops"] if o[0] == "dispatch"]
        if cfg["late_after"] % 2:
            ops = [["reset"]] + ops  # reset right after attaching, before anything else happens
        run_ops(w, ops, h)
        return
    w = DWorld(cfg, ctx)
    run_ops(w, case["ops"], H(w))


def nontrivial(case, ctx):
    return ctx.counts.get("dispatch", 0) + ctx.counts.get("env_step", 0) >= 3
