"""C07 - ready-operation filters prune soundly and never deadlock."""

from ..dworld import DWorld, Hooks, run_ops, gen_dispatch_ops, gen_filter, make_filter
from ..instances import gen_instance, n_ops
from ..model import FILTERS, UNDEFINED
from ..util import stream, mix
from ..core import short_exc
import random

PROP = "C07"
LEVEL = "exploration"
N = {"quick": 60000, "thorough": 1200000}
RULE = ("at every state of seeded dispatcher histories (flexible, zero durations, irregular): each built-in "
        "filter, 1-2 seeded compositions (names / enums / callables) and available_operations() applied to the "
        "full ready list and to seeded order-preserving sub-lists; result must be a non-empty order-preserving "
        "sub-list and equal the reference criterion; completion using only available operations within n_ops "
        "steps; non-trivial: >= 3 dispatches; distinct = distinct (config, op list) hashes")
REAL = ["filter_non_idle_machines", "filter_non_immediate_operations", "filter_non_immediate_machines",
        "filter_dominated_operations", "create_composite_operation_filter", "ready_operations_filter_factory",
        "Dispatcher.available_operations"]
STUB = []
ASSUMPTIONS = ["criteria as worded in the property statement",
               "dominated filter with a zero-duration operation in its input: only sub-list and non-emptiness are demanded"]


def generate(seed, tier):
    rng = stream(seed, "c07")
    big = tier == "thorough" and rng.random() < 0.15
    spec = gen_instance(rng, huge=0.05, sparse_ids=0.03, large=0.008, max_jobs=6 if big else 5, max_machines=5 if big else 4, max_ops=5 if big else 4)
    names, style = gen_filter(rng, None, p_none=0.2)
    only_av = rng.random() < 0.5
    ops = gen_dispatch_ops(rng, n_ops(spec), p_query=0.05, p_reset=0.02, src_av=1.0 if only_av else 0.5)
    comps = [[rng.choice(FILTERS) for _ in range(rng.randint(2, 3))] for _ in range(rng.randint(1, 2))]
    obs = []
    ro = stream(seed, "c07-observers")
    if ro.random() < 0.25:
        # observers that ask the dispatcher questions while they are updated and reset (their answers go through the filter)
        obs = [{"t": t, "ft": None} for t in ("is_ready", "earliest_start_time", "is_scheduled") if ro.random() < 0.6]
    return {"prop": PROP, "cfg": {"instance": spec, "filter": names, "filter_style": style, "observers": obs, "observers_fixed": True,
                                  "compositions": comps, "comp_style": rng.choice(["name", "enum", "callable", "mixed", "generator", "tuple"]),
                                  "sub_seed": rng.randrange(1 << 30), "only_available": only_av}, "ops": ops}


def check_filter(w, label, fn, names, inp):
    """fn: real filter callable; names: model filter chain; inp: list of (j,p)."""
    ctx, m = w.ctx, w.model
    real_in = [w.op_of(j, p) for j, p in inp]
    snapshot = list(real_in)
    try:
        out = fn(w.disp, real_in)
    except Exception as e:  # noqa: BLE001
        ctx.fail("filter_raised", f"{label} raised {short_exc(e)} on input {inp}", filter=label)
        return
    ids = [id(o) for o in snapshot]
    pos = -1
    for o in out:
        if id(o) not in ids:
            ctx.fail("filter_returns_sublist", f"{label} returned a foreign operation {getattr(o, 'job_id', '?')},{getattr(o, 'position_in_job', '?')} for input {inp}", filter=label)
            return
        k = ids.index(id(o))
        if k <= pos:
            ctx.fail("filter_returns_sublist", f"{label} returned {[w.jp(x) for x in out]}: not an order-preserving duplicate-free sub-list of {inp}", filter=label)
            return
        pos = k
    got = [w.jp(o) for o in out]
    if inp and not got:
        ctx.fail("filter_never_empty", f"{label} returned [] for non-empty input {inp}", filter=label)
    exp = m.apply_filters(names, list(inp))
    if exp is UNDEFINED:
        ctx.probe("dominated_with_zero_duration_input")
        return
    ctx.check(got == exp, "filter_equals_criterion", lambda: f"{label} on {inp}: kept {got}, criterion keeps {exp}", filter=label)
    if len(got) < len(inp):
        ctx.probe("filter_removed_something")


class H(Hooks):
    def __init__(self, w):
        from job_shop_lib.dispatching import ready_operations_filter_factory

        self.singles = [(n, ready_operations_filter_factory(n), [n]) for n in FILTERS]
        cfg = w.cfg
        self.comps = [("+".join(c), make_filter(c, "composite" if cfg["comp_style"] == "callable" else cfg["comp_style"]) if len(c) > 1 else make_filter(c, "composite"), c)
                      for c in cfg["compositions"]]
        for c in cfg["compositions"]:
            if len(c) >= 3:
                w.ctx.probe("composite_with_3_parts")
        self.rng = random.Random(cfg["sub_seed"])
        self.steps_since_reset = 0

    def after(self, w, i, kind, info):
        ctx, m = w.ctx, w.model
        if kind == "reset":
            self.steps_since_reset = 0
        if kind == "dispatch":
            self.steps_since_reset += 1
        ready = m.ready()
        if not ready:
            # nothing ready: every filter must map [] to []
            for label, fn, names in self.singles:
                out = fn(w.disp, [])
                ctx.check(list(out) == [], "filter_returns_sublist", lambda: f"{label} returned {out} for []", filter=label)
            return
        inputs = [ready]
        for _ in range(2):
            if len(ready) > 1:
                sub = [x for x in ready if self.rng.random() < 0.6]
                if sub and sub != ready:
                    inputs.append(sub)
                    ctx.probe("sublist_input")
        for inp in inputs:
            for label, fn, names in self.singles + self.comps:
                check_filter(w, label, fn, names, inp)
        # the dispatcher's own view
        av = w.call_query("available_operations")
        got = [w.jp(o) for o in av]
        raw = [w.jp(o) for o in w.call_query("raw_ready_operations")]
        ctx.check(raw == ready, "raw_ready_equals_spec", lambda: f"raw_ready_operations() = {raw}, spec {ready}")
        ctx.check(bool(got), "filter_never_empty", lambda: f"available_operations() empty although {ready} are ready", filter="available_operations")
        exp = m.apply_filters(w.filter_names, ready)
        if exp is not UNDEFINED:
            ctx.check(got == exp, "available_is_filtered_ready", lambda: f"available_operations() = {got}, filter({w.filter_names}) of ready = {exp}")
        else:
            ctx.check(all(x in ready for x in got) and len(set(got)) == len(got), "filter_returns_sublist",
                      lambda: f"available_operations() = {got} not a sub-list of ready {ready}", filter="available_operations")
            # the criterion is not pinned down for this input (zero-duration shortcut), but available_operations() is by
            # definition the installed filter applied to the raw ready list: compare with that direct application
            flt = getattr(w.disp, "ready_operations_filter", None)
            if flt is not None and w.filter_names is not None:
                direct = [w.jp(o) for o in flt(w.disp, list(w.disp.raw_ready_operations()))]
                ctx.check(got == direct, "available_is_filtered_ready",
                          lambda: f"available_operations() = {got}, installed filter applied to raw_ready_operations() = {direct}")
                ctx.probe("available_vs_direct_filter_zero_duration")


def execute(case, ctx):
    w = DWorld(case["cfg"], ctx)
    h = H(w)
    h.after(w, -1, "init", None)
    run_ops(w, case["ops"], h)
    if case["cfg"].get("only_available") and not any(o[0] == "reset" for o in case["ops"]):
        # bounded liveness: completion by available operations only
        n_disp = sum(1 for o in case["ops"] if o[0] == "dispatch")
        if n_disp >= w.model.n_ops:
            ctx.check(w.model.is_complete() and w.disp.schedule.is_complete(), "available_only_completion",
                      lambda: f"{n_disp} dispatches from available_operations() did not complete the {w.model.n_ops}-operation schedule")
            ctx.probe("completed_by_available_only")


def nontrivial(case, ctx):
    return ctx.counts.get("dispatch", 0) >= 3
