"""C14 - instances and schedules survive serialisation; views match; nobody
modifies the instance (mixed: the history/fault-dependent parts are simulated,
the pure view definitions are checked as a by-product on every instance)."""

import io
import json
import math
import random
import sys

import numpy as np

from ..dworld import DWorld, make_filter, BUILDERS, graph_builder, FEATURE_TYPES
from ..instances import gen_instance, n_ops, build, as_tuple, is_flexible
from ..model import Model, check_feasible, sequences_schedule
from ..seams import patched, cpsat_factory
from ..util import stream, Foreign, h64, cjson
from ..core import short_exc
from . import c09

PROP = "C14"
LEVEL = "exploration"
N = {"quick": 15000, "thorough": 300000}
RULE = ("(a) shared-instance worlds: ONE JobShopInstance object handed, in a seeded order, to dispatchers with the full "
        "observer zoo, rule solvers, all graph builders, the solved-graph builder, a single environment episode, the "
        "CP-SAT solver and the (de)serialisers; a deep structural snapshot of the instance is compared after every "
        "actor's op, cached views are compared with their definitions at the end, and schedule / instance round trips "
        "(dict, JSON text, Taillard text through an in-memory open()) are performed at seeded points; (b) corrupted "
        "durable sequences: per-machine job sequences of a dispatcher-built schedule permuted by a seeded list of swaps "
        "/ rotations / shuffles and fed to from_job_sequences under a deterministic call-count budget; accepted <=> "
        "precedence graph acyclic; non-trivial: >= 3 actor ops or >= 1 corruption on >= 4 operations; distinct = "
        "distinct (config, op list) hashes")
REAL = ["JobShopInstance (all views, to_dict, from_matrices, from_taillard_file)", "Schedule (to_dict, from_dict, from_job_sequences)", "Dispatcher + observers",
        "DispatchingRuleSolver", "graph builders", "SingleJobShopGraphEnv", "ORToolsSolver"]
STUB = ["open() inside job_shop_lib._job_shop_instance -> in-memory file system", "cp_model.CpSolver -> pinned subclass"]
ASSUMPTIONS = ["k-th occurrence of a job in a machine's sequence = k-th operation of that job on that machine",
               "corruptions are permutations or lost entries; surplus entries are not generated (the statement does not say whether leftovers must be rejected)",
               "hang = more than (n_ops+1)*(n_machines+1)*400 Python calls inside from_job_sequences"]
STATE_MEASURE = "distinct (instance hash, actor op kind, position) tuples"

ACTORS = ["views", "dispatch_history", "rule_solve", "graph", "env_episode", "cpsat", "schedule_roundtrip", "instance_roundtrip", "solved_graph",
          "rebuild_from_copies"]


def generate(seed, tier):
    rng = stream(seed, "c14")
    if rng.random() < 0.45:
        spec = gen_instance(rng, huge=0.05, sparse_ids=0.03, large=0.008, max_jobs=4, max_machines=4, max_ops=4, flexible=False)
        n = n_ops(spec)
        hist = [["dispatch", rng.randrange(64), 0, 0] for _ in range(n)]
        ops = []
        for _ in range(rng.randint(0, 4)):
            r = rng.random()
            if r < 0.12:
                ops.append(["drop", rng.randrange(8), rng.randrange(16)])
            elif r < 0.5:
                ops.append(["swap", rng.randrange(8), rng.randrange(16), rng.randrange(16)])
            elif r < 0.75:
                ops.append(["rotate", rng.randrange(8), rng.randint(1, 5)])
            else:
                ops.append(["shuffle", rng.randrange(8), rng.randrange(1 << 30)])
        return {"prop": PROP, "kind": "sequences", "cfg": {"instance": spec, "history": hist}, "ops": ops}
    spec = gen_instance(rng, huge=0.05, sparse_ids=0.03, large=0.008, max_jobs=4, max_machines=4, max_ops=4)
    spec["name"] = rng.choice(["sim", "la01", "my instance", "a.b"])
    spec["metadata"] = rng.choice([{}, {"optimum": 7}, {"lower_bound": 1, "tags": ["x", "y"]}])
    ops = []
    for _ in range(rng.randint(2, 7)):
        a = rng.choice(ACTORS)
        ops.append([a, rng.randrange(1 << 30)])
    return {"prop": PROP, "kind": "shared", "cfg": {"instance": spec}, "ops": ops}


# ------------------------------------------------------------- definitions

def deep_snapshot(inst):
    return {
        "name": inst.name, "metadata": json.loads(cjson(inst.metadata)),
        "jobs": [[(list(op.machines), op.duration, op.job_id, op.position_in_job, op.operation_id) for op in job] for job in inst.jobs],
        "job_objs": [id(job) for job in inst.jobs], "op_objs": [[id(op) for op in job] for job in inst.jobs],
    }


def nanlist(a):
    def fix(x):
        if isinstance(x, list):
            return [fix(y) for y in x]
        return "nan" if isinstance(x, float) and math.isnan(x) else x
    return fix(a.tolist())


def check_views(ctx, inst, jobs, when):
    """jobs: tuple model of the instance.  Every derived view = its definition."""
    nj = len(jobs)
    nm = max(m for job in jobs for ms, _ in job for m in ms) + 1
    flex = any(len(ms) > 1 for job in jobs for ms, _ in job)
    ids = [op.operation_id for job in inst.jobs for op in job]
    exp = {
        "operation_ids": list(range(sum(len(j) for j in jobs))),
        "job_ids": [[j] * len(job) for j, job in enumerate(jobs)],
        "positions": [list(range(len(job))) for job in jobs],
        "num_jobs": nj, "num_machines": nm, "num_operations": sum(len(j) for j in jobs), "is_flexible": flex,
        "durations_matrix": [[d for _, d in job] for job in jobs],
        "machines_matrix": [[list(ms) if flex else ms[0] for ms, _ in job] for job in jobs],
        "operations_by_machine": [[(j, p) for j, job in enumerate(jobs) for p, (ms, _) in enumerate(job) for x in ms if x == m] for m in range(nm)],
        "max_duration": max(d for job in jobs for _, d in job),
        "max_duration_per_job": [max(d for _, d in job) for job in jobs],
        "max_duration_per_machine": [max([d for job in jobs for ms, d in job if m in ms], default=0) for m in range(nm)],
        "job_durations": [sum(d for _, d in job) for job in jobs],
        "machine_loads": [sum(d for job in jobs for ms, d in job if m in ms) for m in range(nm)],
        "total_duration": sum(d for job in jobs for _, d in job),
    }
    L = max(len(j) for j in jobs)
    # the padded arrays are documented as float32 arrays: a duration is held as the nearest float32
    exp["durations_matrix_array"] = [[float(np.float32(job[p][1])) if p < len(job) else "nan" for p in range(L)] for job in jobs]
    if flex:
        K = max(len(ms) for job in jobs for ms, _ in job)
        exp["machines_matrix_array"] = [[[float(job[p][0][k]) if p < len(job) and k < len(job[p][0]) else "nan" for k in range(K)] for p in range(L)] for job in jobs]
    else:
        exp["machines_matrix_array"] = [[float(job[p][0][0]) if p < len(job) else "nan" for p in range(L)] for job in jobs]
    got = {
        "operation_ids": ids,
        "job_ids": [[op.job_id for op in job] for job in inst.jobs],
        "positions": [[op.position_in_job for op in job] for job in inst.jobs],
    }
    for name in ("num_jobs", "num_machines", "num_operations", "is_flexible", "durations_matrix", "machines_matrix", "max_duration",
                 "max_duration_per_job", "max_duration_per_machine", "job_durations", "machine_loads", "total_duration"):
        try:
            got[name] = json.loads(cjson(getattr(inst, name)))
        except Exception as e:  # noqa: BLE001
            ctx.fail("view_raised", f"{when}: instance.{name} raised {short_exc(e)}", view=name)
    try:
        got["operations_by_machine"] = [[(op.job_id, op.position_in_job) for op in ops] for ops in inst.operations_by_machine]
        got["durations_matrix_array"] = nanlist(inst.durations_matrix_array)
        got["machines_matrix_array"] = nanlist(inst.machines_matrix_array)
        dts = (str(inst.durations_matrix_array.dtype), str(inst.machines_matrix_array.dtype))
        ctx.check(dts == ("float32", "float32"), "views_equal_definition", lambda: f"{when}: padded arrays have dtypes {dts}", view="dtype")
    except Exception as e:  # noqa: BLE001
        ctx.fail("view_raised", f"{when}: array/per-machine view raised {short_exc(e)}", view="arrays")
    for name, want in exp.items():
        if name in got:
            g = json.loads(cjson(got[name]))
            w = json.loads(cjson(want))
            ctx.check(g == w, "views_equal_definition", lambda: f"{when}: instance.{name} = {g}, definition gives {w}", view=name)


def same_content(a, b):
    return ([[(list(op.machines), op.duration) for op in job] for job in a.jobs] == [[(list(op.machines), op.duration) for op in job] for job in b.jobs]
            and a.name == b.name and json.loads(cjson(a.metadata)) == json.loads(cjson(b.metadata)))


def sched_tuples(s):
    return [[(so.operation.operation_id, so.start_time, so.machine_id) for so in ml] for ml in s.schedule]


def taillard_text(jobs, rng, sym="#"):
    nm = max(m for job in jobs for ms, _ in job for m in ms) + 1
    lines = []
    if rng.random() < 0.5:
        lines.append(f"{sym} generated by the simulator")
    lines.append(f"{len(jobs)} {nm}")
    for job in jobs:
        sep = " " if rng.random() < 0.7 else "\t"
        lines.append(sep.join(f"{ms[0]}{sep}{d}" for ms, d in job))
        if rng.random() < 0.1:
            lines.append(f"{sym} a comment between jobs")
    return "\n".join(lines) + ("\n" if rng.random() < 0.7 else "")


# ---------------------------------------------------------- shared world

def execute_shared(case, ctx):
    from job_shop_lib import JobShopInstance, Schedule
    from job_shop_lib.dispatching import Dispatcher
    import job_shop_lib._job_shop_instance as jim

    spec = case["cfg"]["instance"]
    jobs = as_tuple(spec)
    inst = build(spec, name=spec.get("name"), **spec.get("metadata", {}))
    snap0 = deep_snapshot(inst)
    check_views(ctx, inst, jobs, "freshly built instance") if case["ops"] and case["ops"][0][1] % 2 else None
    flex = is_flexible(spec)
    positive = all(d > 0 for job in jobs for _, d in job)
    last_complete = None  # (schedule object, accepted list)
    ih = h64(spec["jobs"])

    def complete_history(rng, filt=None, zoo=False):
        d = Dispatcher(inst, ready_operations_filter=filt)
        if zoo:
            from ..dworld import make_observer
            for t in FEATURE_TYPES:
                make_observer(d, {"t": t, "ft": None})
            make_observer(d, {"t": "residual", "builder": rng.choice(BUILDERS)})
            make_observer(d, {"t": "composite"})
        while not d.schedule.is_complete():
            cands = d.available_operations() if rng.random() < 0.5 else d.raw_ready_operations()
            op = rng.choice(cands)
            d.dispatch(op, rng.choice(op.machines))
        return d

    for i, (actor, aseed) in enumerate(case["ops"]):
        ctx.step = i
        rng = random.Random(aseed)
        ctx.states.add(h64((ih, actor, i)))
        try:
            if actor == "views":
                check_views(ctx, inst, jobs, f"op {i}")
            elif actor == "dispatch_history":
                names = [] if not positive else rng.choice([[], ["dominated_operations"], ["non_idle_machines", "non_immediate_operations"]])
                d = complete_history(rng, make_filter(names), zoo=rng.random() < 0.6)
                last_complete = d.schedule
                if rng.random() < 0.3:
                    d.reset()
                    last_complete = None
            elif actor == "rule_solve":
                from job_shop_lib.dispatching.rules import DispatchingRuleSolver
                s = DispatchingRuleSolver(dispatching_rule=rng.choice(["shortest_processing_time", "most_work_remaining", "random", "most_operations_remaining"]),
                                          machine_chooser=rng.choice(["first", "random"]))
                last_complete = s(inst) if rng.random() < 0.5 else s.solve(inst)
            elif actor == "graph":
                g = graph_builder(rng.choice(BUILDERS))(inst)
                if rng.random() < 0.5 and len(g.nodes) > 1:
                    g.remove_node(rng.randrange(len(g.nodes)))
            elif actor == "solved_graph":
                if last_complete is not None:
                    from job_shop_lib.graphs import build_solved_disjunctive_graph
                    build_solved_disjunctive_graph(last_complete)
            elif actor == "env_episode":
                from .. import eworld
                cfg = eworld.gen_env_cfg(rng, multi=False)
                from job_shop_lib.reinforcement_learning import SingleJobShopGraphEnv
                env = SingleJobShopGraphEnv(job_shop_graph=graph_builder(cfg["builder"])(inst), **eworld.env_kwargs(cfg))
                env.reset()
                done = False
                steps = 0
                while not done and steps < n_ops(spec) + 1:
                    op = rng.choice(env.dispatcher.available_operations())
                    _, _, done, _, _ = env.step((op.job_id, rng.choice(op.machines)))
                    steps += 1
            elif actor == "cpsat":
                if not flex and n_ops(spec) <= 9:
                    from ortools.sat.python import cp_model
                    from job_shop_lib.constraint_programming import ORToolsSolver
                    with patched(cp_model, "CpSolver", cpsat_factory(aseed)):
                        ORToolsSolver().solve(inst)  # not dispatcher-built (may contain slack): not used for round trips
            elif actor == "schedule_roundtrip":
                if last_complete is not None and not flex:
                    roundtrip_schedule(ctx, inst, jobs, last_complete, rng, i)
            elif actor == "instance_roundtrip":
                roundtrip_instance(ctx, inst, jobs, rng, i, flex, jim)
            elif actor == "rebuild_from_copies":
                # a new instance assembled from copies of this instance's (already numbered) operations,
                # in a different arrangement: its views must follow ITS layout, and the original stays untouched
                import copy
                from job_shop_lib import JobShopInstance

                order = list(range(len(jobs)))
                rng.shuffle(order)
                if len(order) > 1 and rng.random() < 0.5:
                    order = order[:-1]
                new_jobs = [[copy.deepcopy(op) for op in inst.jobs[j]] for j in order]
                if rng.random() < 0.3 and len(new_jobs[0]) > 1:
                    new_jobs[0] = new_jobs[0][1:]
                    model_jobs = tuple([jobs[order[0]][1:]] + [jobs[j] for j in order[1:]])
                else:
                    model_jobs = tuple(jobs[j] for j in order)
                i2 = JobShopInstance(new_jobs, name="rearranged")
                check_views(ctx, i2, model_jobs, f"op {i}: instance assembled from copies of numbered operations (jobs {order})")
                ctx.probe("instance_from_copied_operations")
        except Foreign:
            raise
        except Exception as e:  # noqa: BLE001
            from ..util import Violation
            from ..core import owner_of_exception
            if isinstance(e, Violation):
                raise
            own = {"dispatch_history": "C01", "rule_solve": "C04", "graph": "C16", "solved_graph": "C16", "env_episode": "C18", "cpsat": "C03"}.get(actor, "C14")
            if own == "C14":
                ctx.fail("serialisation_raised", f"op {i} ({actor}) raised {short_exc(e)}", actor=actor, exc=type(e).__name__)
            else:
                raise Foreign(owner_of_exception(e, own), f"{actor} raised {short_exc(e)}")
        ctx.count(actor)
        ctx.count("actor_op")
        ctx.event(i, actor)
        now = deep_snapshot(inst)
        if now != snap0:
            ctx.fail("instance_never_modified", f"after op {i} ({actor}) the shared instance changed at {c09.diff_keys(snap0, now)}", actor=actor)
    ctx.step = len(case["ops"])
    # cached views at the end = definitions (and equal to a freshly built copy's)
    check_views(ctx, inst, jobs, "end of run (views possibly cached long ago)")


def roundtrip_schedule(ctx, inst, jobs, sched, rng, i):
    from job_shop_lib import Schedule

    want = sched_tuples(sched)
    d = sched.to_dict()
    text = json.dumps(d)
    back = json.loads(text)
    via = rng.choice(["dict", "json", "instance_object"])
    if via == "dict":
        s2 = Schedule.from_dict(**d)
    elif via == "json":
        s2 = Schedule.from_dict(**back)
    else:
        s2 = Schedule.from_dict(inst, back["job_sequences"], back["metadata"])
    got = sched_tuples(s2)
    ctx.check(got == want, "schedule_dict_roundtrip", lambda: f"op {i}: from_dict(to_dict(S)) via {via} gives {got}, S = {want}", via=via)
    ctx.check(json.loads(cjson(s2.metadata)) == json.loads(cjson(sched.metadata)), "schedule_dict_roundtrip", lambda: f"op {i}: metadata {s2.metadata} != {sched.metadata}", via="metadata")
    if via != "instance_object":
        ctx.check([[(list(op.machines), op.duration) for op in job] for job in s2.instance.jobs] == [[(list(ms), dd) for ms, dd in job] for job in jobs]
                  and s2.instance.name == inst.name, "schedule_dict_roundtrip", lambda: f"op {i}: the instance inside the rebuilt schedule differs", via="instance")
    seqs = [[so.operation.job_id for so in ml] for ml in sched.schedule]
    seqs0 = [list(s) for s in seqs]
    s3 = Schedule.from_job_sequences(inst, seqs)
    ctx.check(sched_tuples(s3) == want, "job_sequences_roundtrip", lambda: f"op {i}: from_job_sequences(seq(S)) gives {sched_tuples(s3)}, S = {want}")
    # the stored record (the same list object, the same dictionary) rebuilt a second time
    try:
        s3b = Schedule.from_job_sequences(inst, seqs)
        s2b = Schedule.from_dict(**d) if via == "dict" else None
    except Exception as e:  # noqa: BLE001
        ctx.fail("job_sequences_roundtrip", f"op {i}: rebuilding a second time from the same record raised {short_exc(e)}; the record was {seqs0} and is now {seqs}", second=True)
    else:
        ctx.check(sched_tuples(s3b) == want and (s2b is None or sched_tuples(s2b) == want), "job_sequences_roundtrip",
                  lambda: f"op {i}: rebuilding a second time from the same record gives {sched_tuples(s3b)}, S = {want}; the record was {seqs0} and is now {seqs}", second=True)
    # "identical" as the user tests it: the rebuilt schedules compare equal to the original
    ctx.check((s2 == sched) is True and (s3 == sched) is True, "rebuilt_schedule_compares_equal", lambda: f"op {i}: from_dict(to_dict(S)) == S is {s2 == sched}, from_job_sequences(seq(S)) == S is {s3 == sched} although their contents are identical")
    ctx.probe("schedule_roundtrip")


def roundtrip_instance(ctx, inst, jobs, rng, i, flex, jim):
    from job_shop_lib import JobShopInstance

    d = inst.to_dict()
    via = rng.choice(["dict", "json"])
    src = d if via == "dict" else json.loads(json.dumps(d))
    i2 = JobShopInstance.from_matrices(**src)
    ctx.check(same_content(inst, i2), "instance_dict_roundtrip", lambda: f"op {i}: from_matrices(to_dict(I)) via {via} = {[[(op.machines, op.duration) for op in job] for job in i2.jobs]} name={i2.name!r} metadata={i2.metadata}; I has {[[(list(ms), dd) for ms, dd in job] for job in jobs]} name={inst.name!r} metadata={inst.metadata}", via=via)
    check_views(ctx, i2, jobs, f"op {i}: instance rebuilt from its dictionary")
    ctx.check((i2 == inst) is True, "instance_dict_roundtrip", lambda: f"op {i}: from_matrices(to_dict(I)) == I is {i2 == inst} although the operations are the same", via="eq")
    ctx.probe("instance_roundtrip")
    if rng.random() < 0.2:
        # the user renames the instance and revises its metadata between two serialisations
        old_name, old_md = inst.name, inst.metadata
        inst.name, inst.metadata = old_name + "_v2", {**old_md, "revised": True}
        d2 = inst.to_dict()
        ctx.check(d2.get("name") == old_name + "_v2" and d2.get("metadata") == {**old_md, "revised": True}, "instance_dict_roundtrip",
                  lambda: f"op {i}: after renaming the instance to {inst.name!r} to_dict() still says name={d2.get('name')!r} metadata={d2.get('metadata')}", via="renamed")
        inst.name, inst.metadata = old_name, old_md
        d3 = inst.to_dict()
        ctx.check(d3.get("name") == old_name and d3.get("metadata") == old_md, "instance_dict_roundtrip",
                  lambda: f"op {i}: after naming the instance {old_name!r} again to_dict() says name={d3.get('name')!r}", via="renamed")
        ctx.probe("renamed_between_serialisations")
    if not flex:
        sym = rng.choice(["#", "#", "#", "%", "//", ";;"])  # the file's comment symbol is the caller's to name
        text = taillard_text(jobs, rng, sym)
        fname = rng.choice(["inst.txt", "la99", "dir/sub/ta01.txt", "x.y.z"])
        files = {fname: text}

        def fake_open(path, mode="r", encoding=None, **kw):
            return io.StringIO(files[str(path)])

        jim.open = fake_open
        try:
            explicit = rng.random() < 0.3
            given = rng.choice(["given", "la01.v2", "a.b.c"])  # an explicit name is the caller's: kept as it is
            i3 = JobShopInstance.from_taillard_file(fname, name=given if explicit else None, **({} if sym == "#" else {"comment_symbol": sym}),
                                                    **(inst.metadata if rng.random() < 0.5 else {}))
        finally:
            del jim.open
        want_name = given if explicit else fname.split("/")[-1].split(".")[0]
        got = [[(list(op.machines), op.duration) for op in job] for job in i3.jobs]
        ctx.check(got == [[(list(ms), dd) for ms, dd in job] for job in jobs], "taillard_roundtrip", lambda: f"op {i}: from_taillard_file of {text!r} gives {got}")
        ctx.check(i3.name == want_name, "taillard_roundtrip", lambda: f"op {i}: name {i3.name!r}, expected {want_name!r} for file {fname!r}")
        check_views(ctx, i3, jobs, f"op {i}: instance read from Taillard text")
        ctx.probe("taillard_roundtrip")


# ------------------------------------------------------ corrupted sequences

class Hang(BaseException):
    pass


def execute_sequences(case, ctx):
    from job_shop_lib import Schedule
    from job_shop_lib.dispatching import Dispatcher
    from job_shop_lib.exceptions import ValidationError

    spec = case["cfg"]["instance"]
    jobs = as_tuple(spec)
    inst = build(spec)
    snap0 = deep_snapshot(inst)
    m = Model(jobs)
    d = Dispatcher(inst)
    for op in case["cfg"]["history"]:
        ready = m.ready()
        if not ready:
            break
        j, p = ready[op[1] % len(ready)]
        mm = m.machines(j, p)[0]
        d.dispatch(inst.jobs[j][p], mm)
        m.dispatch(j, p, mm)
    if not m.is_complete():
        return
    seqs = [[so.operation.job_id for so in ml] for ml in d.schedule.schedule]
    original = [list(s) for s in seqs]
    for k, op in enumerate(case["ops"]):
        ctx.step = k
        cand = [x for x in range(len(seqs)) if len(seqs[x]) >= (1 if op[0] == "drop" else 2)]
        if not cand:
            break
        s = seqs[cand[op[1] % len(cand)]]
        if op[0] == "drop":  # a lost entry: the sequences then admit no complete schedule
            del s[op[2] % len(s)]
        elif op[0] == "swap":
            a, b = op[2] % len(s), op[3] % len(s)
            s[a], s[b] = s[b], s[a]
        elif op[0] == "rotate":
            r = op[2] % len(s)
            s[:] = s[r:] + s[:r]
        else:
            random.Random(op[2]).shuffle(s)
        ctx.fault("corrupt_sequences:" + op[0])
        ctx.count("corruption")
    ctx.step = len(case["ops"])
    want = sequences_schedule(jobs, seqs)
    budget = (m.n_ops + 1) * (m.nm + 1) * 400
    calls = [0]

    def prof(frame, event, arg):
        if event == "call":
            calls[0] += 1
            if calls[0] > budget:
                raise Hang()

    result, err = None, None
    sys.setprofile(prof)
    try:
        result = Schedule.from_job_sequences(inst, [list(s) for s in seqs])
    except Hang:
        err = "hang"
    except Exception as e:  # noqa: BLE001
        err = e
    finally:
        sys.setprofile(None)
    ctx.event(0, "from_job_sequences", seqs, "accept" if want is not None else "reject", calls[0])
    ctx.states.add(h64((h64(spec["jobs"]), h64(seqs))))
    what = f"from_job_sequences({seqs}) on {spec['jobs']} (dispatcher-built sequences were {original})"
    if err == "hang":
        ctx.fail("from_job_sequences_terminates", f"{what}: more than {budget} Python calls without returning")
        return
    if want is None:
        ctx.probe("cyclic_sequences" if not any(o[0] == "drop" for o in case["ops"]) else "sequences_with_lost_entries")
        ctx.check(err is not None, "rejected_iff_no_schedule", lambda: f"{what}: the sequences admit no schedule (cyclic precedence) but a schedule was returned: {sched_tuples(result)}")
        ctx.check(err is None or isinstance(err, ValidationError), "rejects_with_validation_error", lambda: f"{what}: rejected with {short_exc(err)}, not a ValidationError")
    else:
        ctx.probe("acyclic_permuted_sequences" if seqs != original else "unchanged_sequences")
        if err is not None:
            ctx.fail("rejected_iff_no_schedule", f"{what}: the sequences admit the schedule {want} but the call raised {short_exc(err)}")
            return
        got = sched_tuples(result)
        lists = [[(so.operation.job_id, so.operation.position_in_job, so.start_time, so.machine_id) for so in ml] for ml in result.schedule]
        errs = check_feasible(jobs, lists)
        ctx.check(not errs and result.is_complete(), "rebuilt_schedule_feasible", lambda: f"{what}: result infeasible/incomplete: {errs[:3]}")
        ctx.check(got == want, "rebuilt_schedule_is_the_sequences_schedule", lambda: f"{what}: result {got}, the semi-active schedule of these sequences is {want}")
    ctx.check(deep_snapshot(inst) == snap0, "instance_never_modified", lambda: f"{what}: the instance was modified", actor="from_job_sequences")


def execute(case, ctx):
    if case["kind"] == "sequences":
        return execute_sequences(case, ctx)
    return execute_shared(case, ctx)


def nontrivial(case, ctx):
    if case["kind"] == "sequences":
        return ctx.counts.get("corruption", 0) >= 1 and n_ops(case["cfg"]["instance"]) >= 4
    return ctx.counts.get("actor_op", 0) >= 3
