"""C06 - time only moves forward."""

from ..dworld import DWorld, Hooks, run_ops, gen_dispatch_ops, gen_filter
from ..instances import gen_instance, n_ops
from ..util import stream

PROP = "C06"
LEVEL = "exploration"
N = {"quick": 150000, "thorough": 3000000}
RULE = ("seeded instance x filter (any instance without filter; positive durations under every filter / "
        "composition) x dispatch history with queries, invalid requests and resets; current_time() and "
        "completed_operations() compared between every pair of consecutive states; non-trivial: >= 3 dispatches; "
        "distinct = distinct (config, op list) hashes")
REAL = ["Dispatcher.current_time / completed_operations / ongoing_operations", "all four filters and compositions"]
STUB = []
ASSUMPTIONS = ["scope exactly as stated: zero durations only without a filter"]


def generate(seed, tier):
    rng = stream(seed, "c06")
    big = tier == "thorough" and rng.random() < 0.15
    names, style = gen_filter(rng, None, p_none=0.4)
    spec = gen_instance(rng, huge=0.03, sparse_ids=0.03, large=0.008, max_jobs=6 if big else 4, max_machines=5 if big else 4, max_ops=6 if big else 4,
                        positive=True if names else None)
    faulty = rng.random() < 0.4
    sparse = rng.random() < 0.3
    ops = gen_dispatch_ops(rng, n_ops(spec), p_fork=0.03 if rng.random() < 0.3 else 0.0, p_solve_rest=0.03 if rng.random() < 0.4 else 0.0, p_query=0.0 if sparse else 0.1, p_invalid=0.08 if faulty else 0.0,
                           p_reset=0.04 if faulty else 0.0, episodes=rng.randint(2, 3) if (sparse or rng.random() < 0.1) else 1,
                           stop_early=0.0 if sparse else 0.1)
    # "sparse": the user looks at the clock only now and then (a seeded subset of the steps, and whenever the
    # schedule is complete); monotonicity between the observed states still has to hold
    # the usual company: observers that read the dispatcher's queries inside their callbacks (positive durations
    # only, as the residual updater requires)
    obs = []
    if all(d > 0 for job in spec["jobs"] for _, d in job) and rng.random() < 0.3:
        from ..dworld import BUILDERS
        obs = [{"t": "residual", "builder": rng.choice(BUILDERS), "rm": True, "rj": True}]
        if rng.random() < 0.5:
            obs = [{"t": "is_scheduled", "ft": None}, {"t": "duration", "ft": None}] + obs
    return {"prop": PROP, "cfg": {"instance": spec, "filter": names, "filter_style": style, "observers": obs,
                                  "observe": [int(rng.random() < 0.15) for _ in ops] if sparse else None}, "ops": ops}


class H(Hooks):
    def __init__(self, ops=(), observe=None):
        self.prev_now = None
        self.prev_completed = None
        self.ops = ops
        self.observe_at = observe

    def observe(self, w):
        now = w.call_query("current_time")
        comp = {w.jp(o) for o in w.call_query("completed_operations")}
        return now, comp

    def after(self, w, i, kind, info):
        ctx, m = w.ctx, w.model
        if kind == "dispatch" and i + 1 < len(self.ops) and self.ops[i + 1][0] == "query":
            # let the user's query burst be the first thing asked in the new state; the clock is read after it
            # (monotonicity between the observed states still has to hold: <= is transitive)
            ctx.probe("clock_read_after_other_queries")
            return
        if self.observe_at is not None and kind != "reset" and not m.is_complete() and not (i < len(self.observe_at) and self.observe_at[i]):
            ctx.probe("state_not_observed_sparse_mode")
            return
        if self.observe_at is not None and kind == "reset":
            # nobody looks at the clock right after the reset; the comparison simply restarts
            self.prev_now, self.prev_completed = None, None
            return
        now, comp = self.observe(w)
        if kind == "reset":
            self.prev_now, self.prev_completed = now, comp
            ctx.check(now == 0 and not comp, "clock_restarts_on_reset", lambda: f"after reset current_time()={now}, completed={sorted(comp)}")
            return
        if self.prev_now is not None:
            ctx.check(now >= self.prev_now, "current_time_monotone", lambda: f"current_time() went from {self.prev_now} to {now} at op {i} ({kind})")
            ctx.check(self.prev_completed <= comp, "completed_only_grows", lambda: f"completed operations lost {sorted(self.prev_completed - comp)} at op {i} ({kind})")
            if now > self.prev_now:
                ctx.probe("clock_advanced")
        if w.filter_names:
            nf = m.now_unfiltered()
            ctx.check(now == nf, "filter_does_not_change_time", lambda: f"current_time() = {now} under filter {w.filter_names}, unfiltered {nf}")
        if m.is_complete():
            ctx.check(now == w.disp.schedule.makespan() == m.makespan(), "complete_time_is_makespan",
                      lambda: f"complete: current_time()={now}, makespan()={w.disp.schedule.makespan()}, model {m.makespan()}")
            ctx.probe("complete_state_checked")
        self.prev_now, self.prev_completed = now, comp


def execute(case, ctx):
    w = DWorld(case["cfg"], ctx)
    h = H(case["ops"], case["cfg"].get("observe"))
    if case["cfg"].get("observe") is None:
        h.prev_now, h.prev_completed = h.observe(w)
    run_ops(w, case["ops"], h)


def nontrivial(case, ctx):
    return ctx.counts.get("dispatch", 0) >= 3
