"""C11 - incremental features equal a from-scratch recomputation."""

import numpy as np

from ..dworld import DWorld, Hooks, run_ops, gen_dispatch_ops, gen_filter, FEATURE_TYPES, LEVELS, mark_manual
from ..instances import gen_instance, n_ops
from ..util import stream

PROP = "C11"
LEVEL = "exploration"
N = {"quick": 50000, "thorough": 1000000}
RULE = ("seeded instance (recirculation, irregular jobs, unused machine ids, flexible, zero durations; filters only "
        "with positive durations) x seeded set/order/feature-type subsets of the 7 built-in feature observers "
        "(created by name, enum or config) + composite x dispatch history; after every dispatch every feature "
        "value of every entity with work left is compared with the reference recomputation; composite = hstack of "
        "parts; non-trivial: >= 3 dispatches and >= 2 observers; distinct = distinct (config, op list) hashes")
REAL = ["all seven feature observers", "CompositeFeatureObserver", "feature_observer_factory", "Dispatcher"]
STUB = []
ASSUMPTIONS = ["feature definitions as documented / as worded in the statement (sim/model.py features_spec)",
               "'work left' = unscheduled operations (plus ongoing ones for the scheduled/completed flags); jobs and machines with >= 1 unscheduled operation",
               "machine-level duration / remaining-operations only on non-flexible instances"]


CONSULT = ["observer_based_most_work_remaining_rule", "most_work_remaining_rule", "most_operations_remaining_rule",
           "shortest_processing_time_rule", "first_come_first_served_rule", "most_operations_remaining_score",
           "shortest_processing_time_score", "first_come_first_served_score"]


def gen_observers(rng, all_prob=0.3):
    if rng.random() < all_prob:
        types = list(FEATURE_TYPES)
    else:
        types = [t for t in FEATURE_TYPES if rng.random() < 0.5] or [rng.choice(FEATURE_TYPES)]
    rng.shuffle(types)
    if rng.random() < 0.15:
        types.append(rng.choice(FEATURE_TYPES))  # a second instance of a (non-singleton) type
    obs = []
    for t in types:
        lv = LEVELS[t]
        if rng.random() < 0.5:
            ft = None
        else:
            ft = [x for x in lv if rng.random() < 0.6] or [rng.choice(lv)]
        obs.append({"t": t, "ft": ft, "how": rng.choice(["str", "enum", "config", "class"])})
    return obs


def generate(seed, tier):
    rng = stream(seed, "c11")
    big = tier == "thorough" and rng.random() < 0.15
    names, style = gen_filter(rng, None, p_none=0.6, user=0.2)
    spec = gen_instance(rng, sparse_ids=0.03, large=0.008, max_jobs=6 if big else 4, max_machines=5 if big else 4, max_ops=5 if big else 4,
                        positive=True if names else None)
    obs = mark_manual(stream(seed, "c11-manual"), gen_observers(rng), 0.08)
    if rng.random() < 0.7:
        obs.append({"t": "composite", "explicit": stream(seed, "c11-explicit").random() < 0.3})
        if rng.random() < 0.12:
            obs.append({"t": "composite"})  # picks up every subscribed feature observer, the first composite included
    consult = [(0.12, lambda r: ["consult", r.choice(CONSULT)])] if rng.random() < 0.4 else None
    ops = gen_dispatch_ops(rng, n_ops(spec), p_fork=0.03 if rng.random() < 0.3 else 0.0, p_query=0.05, p_invalid=0.04, p_reset=0.04 if rng.random() < 0.5 else 0.0,
                           episodes=2 if rng.random() < 0.15 else 1, extra=consult)
    return {"prop": PROP, "cfg": {"instance": spec, "filter": names, "filter_style": style, "observers": obs,
                                  "refused_first": rng.random() < 0.1}, "ops": ops}


def compare_features(w, when):
    ctx, m = w.ctx, w.model
    spec = m.features_spec()
    for ospec, o in w.observers:
        t = ospec["t"]
        if t == "composite":
            check_composite(w, o, when)
            continue
        if t not in spec:
            continue
        for ft, arr in o.features.items():
            level = ft.value
            want = spec[t].get(level)
            if want is None:
                continue
            if arr.shape[1] != 1:
                ctx.fail("feature_shape", f"{t}.{level} has shape {arr.shape}", observer=t, level=level)
                continue
            for ent, val in want.items():
                if ent >= arr.shape[0]:
                    ctx.fail("feature_shape", f"{t}.{level} has {arr.shape[0]} rows, entity {ent} missing", observer=t, level=level)
                    break
                got = float(arr[ent, 0])
                if got != val:
                    ctx.fail("feature_equals_spec",
                             f"{when}: {t}.{level}[{ent}] = {got}, recomputed from instance and history = {val} (history {[(h[0], h[1], h[2]) for h in m.hist]})",
                             observer=t, level=level)
                    break


def check_composite(w, comp, when):
    ctx = w.ctx
    parts = comp.feature_observers
    want_cols = {}
    want = {}
    for p in parts:
        for ft, arr in p.features.items():
            want.setdefault(ft, []).append(arr)
            nm = type(p).__name__.replace("Observer", "")
            cols = [nm] if arr.shape[1] == 1 else [f"{nm}_{i}" for i in range(arr.shape[1])]
            want_cols.setdefault(ft, []).extend(cols)
    if set(comp.features) != set(want):
        ctx.fail("composite_equals_concatenation", f"{when}: composite has feature types {sorted(k.value for k in comp.features)}, parts have {sorted(k.value for k in want)}")
        return
    for ft, arrs in want.items():
        cat = np.hstack(arrs)
        got = comp.features[ft]
        if got.shape != cat.shape or not np.array_equal(got, cat, equal_nan=True):
            ctx.fail("composite_equals_concatenation", f"{when}: composite.{ft.value} = {got.tolist()} but hstack of parts = {cat.tolist()}", level=ft.value)
        if list(comp.column_names[ft]) != want_cols[ft]:
            ctx.fail("composite_column_names", f"composite.column_names[{ft.value}] = {list(comp.column_names[ft])}, expected {want_cols[ft]}")
    # the same content through the other public views (checked every few calls: pandas is slow)
    if (len(w.model.hist) + len(parts)) % 4 == 0:
        dims = comp.feature_dimensions  # (feature_sizes is not consulted: nothing in the statement defines it for composites)
        frames = comp.features_as_dataframe
        for ft in want:
            got = comp.features[ft]
            if tuple(dims[ft]) != got.shape:
                ctx.fail("composite_column_names", f"{when}: feature_dimensions[{ft.value}] = {dims[ft]}, the matrix has shape {got.shape}", view="dimensions")
            df = frames[ft]
            if list(df.columns) != want_cols[ft] or df.shape != got.shape or not np.array_equal(df.to_numpy(), got, equal_nan=True):
                ctx.fail("composite_column_names", f"{when}: features_as_dataframe[{ft.value}] has columns {list(df.columns)} shape {df.shape}; matrix shape {got.shape}, columns {want_cols[ft]}", view="dataframe")
        ctx.probe("composite_views_checked")
    w.ctx.probe("composite_checked")


class H(Hooks):
    def extra(self, w, i, op):
        if op[0] == "consult":
            # a dispatching rule / scoring function is consulted between dispatches (as a rule-driven history does
            # before every step); it only reads, so every feature must still equal its specification afterwards
            from job_shop_lib.dispatching import rules as r
            from ..util import Foreign
            from ..core import short_exc

            if w.model.is_complete():
                return "complete"
            try:
                getattr(r, op[1])(w.disp)
            except Exception as e:  # noqa: BLE001
                raise Foreign("C04", f"{op[1]} raised {short_exc(e)}")
            compare_features(w, f"after consulting {op[1]} in state nxt={w.model.nxt}")
            w.ctx.probe("rule_consulted_between_dispatches")
            return op[1]
        return super().extra(w, i, op)

    def after(self, w, i, kind, info):
        if kind == "reset":
            compare_features(w, f"after reset #{w.n_resets}")
            w.ctx.probe("features_checked_after_reset")
        if kind == "dispatch":
            compare_features(w, f"after dispatch #{len(w.model.hist)}")
            m = w.model
            j, p, mm, s, e = m.hist[-1]
            if m.now() < e and s < m.now():
                w.ctx.probe("just_dispatched_started_before_now")
            if any(mm in ms and (jj, pp) != (j, p) for jj, job in enumerate(m.jobs) for pp, (ms, _) in enumerate(job) if jj == j and pp < p):
                w.ctx.probe("recirculating_dispatch")


def refused_request(w):
    """An earlier refused observer request (unsupported feature type) must leave no trace."""
    from job_shop_lib.dispatching.feature_observers import PositionInJobObserver, FeatureType

    n = len(w.disp.subscribers)
    try:
        PositionInJobObserver(w.disp, feature_types=[FeatureType.JOBS])
    except Exception:  # noqa: BLE001
        w.ctx.fault("refused_observer_request")
        # whatever it left behind shows in the feature values / dispatches that follow


def execute(case, ctx):
    w = DWorld(case["cfg"], ctx)
    if case["cfg"].get("refused_first"):
        refused_request(w)
    if len([1 for s in case["cfg"]["observers"]]) != len(w.observers):
        return  # a constructor raised and was matched as a known finding
    compare_features(w, "initial state")
    run_ops(w, case["ops"], H())


def nontrivial(case, ctx):
    return ctx.counts.get("dispatch", 0) >= 3 and len(case["cfg"]["observers"]) >= 2
