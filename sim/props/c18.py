"""C18 - the environments honour the Gymnasium contract."""

from .. import eworld
from ..util import stream

PROP = "C18"
LEVEL = "exploration"
N = {"quick": 6000, "thorough": 120000}
RULE = ("seeded environment configuration (single env: instance x 4 graph builders x feature-observer configs incl. "
        "feature-type subsets x 2 rewards x updater options x filter x use_padding; multi env: generator ranges, "
        "recirculation, machines_per_operation, non-default updater / reward / initializer) x 1-3 episodes of legal "
        "actions (flexible choices and -1) with invalid actions and mid-episode resets; every observation, flag and "
        "legal action checked against spaces, graph and model; non-trivial: >= 3 steps; distinct = distinct (config, op list)")
REAL = ["SingleJobShopGraphEnv", "MultiJobShopGraphEnv", "add_padding", "GeneralInstanceGenerator (multi env)", "gymnasium spaces",
        "CompositeFeatureObserver + feature observers", "ResidualGraphUpdater", "reward observers"]
STUB = []
ASSUMPTIONS = ["observation-space membership is demanded with use_padding=True only (without padding the edge list legitimately shrinks)",
               "edge list compared as a multiset of columns"]


def generate(seed, tier):
    rng = stream(seed, "c18")
    big = tier == "thorough" and rng.random() < 0.2
    return eworld.gen_env_case(rng, PROP, big=big)


def execute(case, ctx):
    eworld.execute_env_case(case, ctx, oracles=("contract",))


def nontrivial(case, ctx):
    return ctx.counts.get("env_step", 0) >= 3


def simplify(case):
    cfg = case["cfg"]
    if cfg["features"]:
        for k in range(len(cfg["features"])):
            yield {**case, "cfg": {**cfg, "features": cfg["features"][:k] + cfg["features"][k + 1:]}}
        for k, f in enumerate(cfg["features"]):
            if f.get("ft") and len(f["ft"]) > 1:
                for x in f["ft"]:
                    nf = dict(f, ft=[y for y in f["ft"] if y != x])
                    yield {**case, "cfg": {**cfg, "features": cfg["features"][:k] + [nf] + cfg["features"][k + 1:]}}
    if cfg.get("updater") is not None:
        yield {**case, "cfg": {**cfg, "updater": None}}
    if cfg["filter"] != "none":
        yield {**case, "cfg": {**cfg, "filter": "none"}}
    if cfg["builder"] != "agent_task":
        yield {**case, "cfg": {**cfg, "builder": "agent_task"}}
    if cfg["env"] == "multi":
        g = cfg["gen"]
        if g["allow_recirculation"]:
            yield {**case, "cfg": {**cfg, "gen": {**g, "allow_recirculation": False}}}
        if isinstance(g["machines_per_operation"], list):
            yield {**case, "cfg": {**cfg, "gen": {**g, "machines_per_operation": 1}}}
        for key in ("num_jobs", "num_machines"):
            lo, hi = g[key]
            if hi > lo:
                yield {**case, "cfg": {**cfg, "gen": {**g, key: [lo, hi - 1]}}}
            if lo > 1:
                yield {**case, "cfg": {**cfg, "gen": {**g, key: [lo - 1, hi - 1]}}}
