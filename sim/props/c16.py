"""C16 - graph encodings are faithful to the instance and the schedule (mixed:
builder = specification is a pure by-product check on every instance the
simulated histories use; solved graph vs makespan is checked on the final
schedule of every simulated history)."""

import random

from ..dworld import DWorld, BUILDERS, graph_builder, make_filter, gen_filter
from ..instances import gen_instance, n_ops, build, as_tuple, is_flexible
from ..model import Model, graph_spec, solved_graph_longest_path
from ..seams import patched, cpsat_factory
from ..util import stream, Foreign, h64
from ..core import short_exc

PROP = "C16"
LEVEL = "exploration"
N = {"quick": 30000, "thorough": 600000}
RULE = ("seeded instance (flexible, irregular, recirculation, unused machine ids; positive durations for the solved-graph "
        "part) x schedule source (seeded dispatcher history under a seeded filter, rule solver, CP-SAT, from_job_sequences) "
        "x all four graph builders + build_solved_disjunctive_graph; node list / edge set / edge types compared with the "
        "reference specification, the solved graph's longest duration-weighted source->sink path compared with the "
        "makespan; non-trivial: >= 2 jobs and >= 4 operations; distinct = distinct (instance, source, history) hashes")
REAL = ["JobShopGraph", "build_disjunctive_graph", "build_solved_disjunctive_graph", "build_agent_task_graph (3 variants)", "Node",
        "Dispatcher / DispatchingRuleSolver / ORToolsSolver / Schedule.from_job_sequences as schedule sources", "networkx"]
STUB = ["cp_model.CpSolver -> pinned subclass (CP-SAT source only)"]
ASSUMPTIONS = ["where two edge kinds are prescribed for one ordered pair (consecutive operations of a job sharing a machine) the job-chain direction must be conjunctive",
               "equality of the critical path with the makespan is demanded for dispatcher-built schedules only"]
STATE_MEASURE = "distinct (instance hash, schedule source, machine orders) tuples"


def generate(seed, tier):
    rng = stream(seed, "c16")
    big = tier == "thorough" and rng.random() < 0.2
    source = rng.choice(["dispatcher", "dispatcher", "rule", "cpsat", "sequences", "none"])
    spec = gen_instance(rng, sparse_ids=0.03, large=0.008, max_jobs=5 if big else 4, max_machines=4, max_ops=5 if big else 4,
                        positive=True if source != "none" else None, flexible=False if source in ("cpsat", "sequences") else None)
    if source == "cpsat" and n_ops(spec) > 9:
        source = "dispatcher"
    names, style = gen_filter(rng, None, p_none=0.5, user=0.3)
    other_size = gen_instance(rng, sparse_ids=0.03, large=0.008, max_jobs=4, max_machines=4, max_ops=4) if rng.random() < 0.3 else None
    abandoned = [["dispatch", rng.randrange(64), rng.randrange(64), int(rng.random() < 0.5)] for _ in range(rng.randint(1, 4))] if rng.random() < 0.3 else []
    return {"prop": PROP, "cfg": {"instance": spec, "source": source, "filter": names, "filter_style": style, "abandoned": abandoned, "other_size": other_size, "from_blocks": rng.random() < 0.15, "rejected_requests": rng.random() < 0.2,
                                  "second": rng.choice([None, None, "rule", "dispatcher"]),
                                  "rule": rng.choice(["shortest_processing_time", "most_work_remaining", "first_come_first_served", "random"]),
                                  "solver_seed": rng.randrange(1 << 30)},
            "ops": [["dispatch", rng.randrange(64), rng.randrange(64), int(rng.random() < 0.5)] for _ in range(n_ops(spec))]}


def check_builder(ctx, inst, jobs, name):
    from job_shop_lib.graphs import NodeType, EdgeType

    want_nodes, want_edges = graph_spec(jobs, name)
    try:
        g = graph_builder(name)(inst)
    except Exception as e:  # noqa: BLE001
        ctx.fail("builder_raised", f"{name} builder raised {short_exc(e)} on {[[(list(ms), d) for ms, d in job] for job in jobs]}", builder=name)
        return
    got_nodes = []
    for pos, node in enumerate(g.nodes):
        t = node.node_type.name
        if node.node_id != pos:
            ctx.fail("node_ids_sequential", f"{name}: node at position {pos} has id {node.node_id}", builder=name)
        if t == "OPERATION":
            got_nodes.append(("OPERATION", node.operation.operation_id))
        elif t == "MACHINE":
            got_nodes.append(("MACHINE", node.machine_id))
        elif t == "JOB":
            got_nodes.append(("JOB", node.job_id))
        else:
            got_nodes.append((t,))
    ctx.check(got_nodes == [tuple(x) for x in want_nodes], "nodes_equal_spec", lambda: f"{name}: nodes {got_nodes}, specification {want_nodes}", builder=name)
    ctx.check(sorted(g.graph.nodes()) == list(range(len(want_nodes))) and not any(g.removed_nodes), "nodes_equal_spec",
              lambda: f"{name}: networkx nodes {sorted(g.graph.nodes())}, removed {g.removed_nodes}", builder=name)
    got_edges = {}
    for u, v, data in g.graph.edges(data=True):
        t = data.get("type")
        got_edges[(int(u), int(v))] = t.name if t is not None else None
    missing = sorted(set(want_edges) - set(got_edges))
    extra = sorted(set(got_edges) - set(want_edges))
    ctx.check(not missing, "no_edge_missing", lambda: f"{name}: prescribed edges missing: {missing[:6]} (instance {[[(list(ms), d) for ms, d in job] for job in jobs]})", builder=name)
    ctx.check(not extra, "no_extra_edge", lambda: f"{name}: edges not prescribed by the definition: {extra[:6]}", builder=name)
    wrong = [(e, got_edges[e], sorted(map(str, want_edges[e]))) for e in want_edges if e in got_edges and got_edges[e] not in want_edges[e]]
    ctx.check(not wrong, "edge_types_equal_spec", lambda: f"{name}: wrongly typed edges (edge, got, allowed): {wrong[:4]}", builder=name)
    # lookup helpers agree with the node list
    for pos, nd in enumerate(want_nodes):
        if nd[0] == "OPERATION":
            ok = g.get_operation_node(nd[1]).node_id == pos
        elif nd[0] == "MACHINE":
            ok = g.get_machine_node(nd[1]).node_id == pos
        elif nd[0] == "JOB":
            ok = g.get_job_node(nd[1]).node_id == pos
        else:
            ok = True
        ctx.check(ok, "node_lookup_consistent", lambda: f"{name}: lookup of {nd} does not return node {pos}", builder=name)
    ctx.count("graph_built")
    return g


def check_blocks(ctx, inst, jobs):
    """The complete agent-task graph composed by hand from the exported building blocks; the user looks at
    the graph (nodes_by_type, num_job_nodes, non_removed_nodes) between the steps."""
    from job_shop_lib import graphs as G
    from job_shop_lib.graphs import JobShopGraph, NodeType

    g = JobShopGraph(inst)
    look = lambda: (len(g.nodes_by_type[NodeType.MACHINE]), len(g.nodes_by_type[NodeType.JOB]), len(g.nodes_by_type[NodeType.GLOBAL]), g.num_job_nodes, len(g.non_removed_nodes()))  # noqa: E731
    try:
        look()
        G.add_machine_nodes(g)
        G.add_operation_machine_edges(g)
        look()
        G.add_job_nodes(g)
        G.add_operation_job_edges(g)
        look()
        G.add_global_node(g)
        G.add_machine_global_edges(g)
        G.add_job_global_edges(g)
    except Exception as e:  # noqa: BLE001
        ctx.fail("builder_raised", f"composing the complete agent-task graph from its building blocks raised {short_exc(e)}", builder="blocks")
        return
    want_nodes, want_edges = graph_spec(jobs, "agent_task_complete")
    kinds = [(n.node_type.name,) if n.node_type.name in ("GLOBAL",) else (n.node_type.name, n.operation.operation_id if n.node_type.name == "OPERATION" else (n.machine_id if n.node_type.name == "MACHINE" else n.job_id)) for n in g.nodes]
    ctx.check(kinds == [tuple(x) for x in want_nodes], "nodes_equal_spec", lambda: f"graph composed from building blocks: nodes {kinds}, specification {want_nodes}", builder="blocks")
    got = {(int(u), int(v)) for u, v in g.graph.edges()}
    ctx.check(got == set(want_edges), "no_edge_missing", lambda: f"graph composed from building blocks: missing {sorted(set(want_edges) - got)[:5]}, extra {sorted(got - set(want_edges))[:5]}", builder="blocks")
    ctx.probe("graph_composed_from_blocks")


def _entity(n):
    t = n.node_type.name
    if t == "OPERATION":
        return (t, n.operation.operation_id)
    if t == "MACHINE":
        return (t, n.machine_id)
    if t == "JOB":
        return (t, n.job_id)
    return (t,)


def check_blocks_permuted(ctx, inst, jobs, pick):
    """Graphs composed by hand with the nodes added in another order than the built-in builders use (nothing
    prescribes an order): node ids then differ from the builders', and the edge blocks must still connect the
    right entities."""
    from job_shop_lib import graphs as G
    from job_shop_lib.graphs import JobShopGraph, Node, NodeType

    try:
        if pick % 2 == 0:
            which, spec_name = "disjunctive graph with source and sink added before the operation nodes", "disjunctive"
            g = JobShopGraph(inst, add_operation_nodes=False)
            G.add_source_sink_nodes(g)
            g.add_operation_nodes()
            G.add_disjunctive_edges(g)
            G.add_conjunctive_edges(g)
            G.add_source_sink_edges(g)
        else:
            which, spec_name = "complete agent-task graph with machine and job nodes added in descending id order", "agent_task_complete"
            g = JobShopGraph(inst)
            for m in reversed(range(inst.num_machines)):
                g.add_node(Node(node_type=NodeType.MACHINE, machine_id=m))
            G.add_operation_machine_edges(g)
            for j in reversed(range(inst.num_jobs)):
                g.add_node(Node(node_type=NodeType.JOB, job_id=j))
            G.add_operation_job_edges(g)
            G.add_global_node(g)
            G.add_machine_global_edges(g)
            G.add_job_global_edges(g)
    except Exception as e:  # noqa: BLE001
        ctx.fail("builder_raised", f"composing a graph from its building blocks in another node order raised {short_exc(e)}", builder="blocks_permuted")
        return
    want_nodes, want_edges = graph_spec(jobs, spec_name)
    real_id = {_entity(n): n.node_id for n in g.nodes}
    ctx.check(sorted(real_id, key=str) == sorted((tuple(x) for x in want_nodes), key=str) and len(g.nodes) == len(want_nodes), "nodes_equal_spec",
              lambda: f"{which}: node entities {sorted(real_id, key=str)}, specification {sorted((tuple(x) for x in want_nodes), key=str)}", builder="blocks_permuted")
    try:
        want = {(real_id[tuple(want_nodes[u])], real_id[tuple(want_nodes[v])]): t for (u, v), t in want_edges.items()}
    except KeyError:
        return
    got = {(int(u), int(v)): (dd.get("type").name if dd.get("type") is not None else None) for u, v, dd in g.graph.edges(data=True)}
    ctx.check(set(got) == set(want), "no_edge_missing", lambda: f"{which}: missing {sorted(set(want) - set(got))[:5]}, extra {sorted(set(got) - set(want))[:5]} (node ids {real_id})", builder="blocks_permuted")
    bad = [(e, got[e], sorted(want[e], key=str)) for e in got if e in want and got[e] not in want[e]]
    ctx.check(not bad, "edge_types_equal_spec", lambda: f"{which}: wrongly typed edges {bad[:4]}", builder="blocks_permuted")
    ctx.probe("graph_composed_in_another_node_order")


def check_blocks_on_residual(ctx, inst, jobs, pick):
    """An edge-adding building block applied to a graph from which a node was removed beforehand (a residual
    graph): it either refuses, or the result is faithful - every node of the underlying graph is a live node
    entity and the added edges are exactly the operation-machine edges among live nodes."""
    from job_shop_lib import graphs as G
    from job_shop_lib.graphs import NodeType

    try:
        g = G.build_disjunctive_graph(inst)
        ops_nodes = g.nodes_by_type[NodeType.OPERATION]
        victim = ops_nodes[pick % len(ops_nodes)]
        g.remove_node(victim.node_id)
        G.add_machine_nodes(g)
    except Exception as e:  # noqa: BLE001
        ctx.fail("builder_raised", f"removing an operation node from the disjunctive graph and adding machine nodes raised {short_exc(e)}", builder="blocks_residual")
        return
    before = {(u, v) for u, v in g.graph.edges()}
    try:
        G.add_operation_machine_edges(g)
    except Exception:  # noqa: BLE001 - a refusal
        ctx.probe("block_refused_on_residual_graph")
        return
    live = {n.node_id: n for n in g.non_removed_nodes()}
    phantom = sorted((x for x in g.graph.nodes if x not in live or g.graph.nodes[x].get("node") is not live[x]), key=str)
    ctx.check(not phantom, "nodes_equal_spec", lambda: f"add_operation_machine_edges on a graph whose operation node {victim.node_id} had been removed: "
              f"the underlying graph now has nodes {phantom[:5]} that are not live node entities", builder="blocks_residual")
    mach = {n.machine_id: n.node_id for n in live.values() if n.node_type == NodeType.MACHINE}
    want = set()
    for n in live.values():
        if n.node_type == NodeType.OPERATION:
            for m in n.operation.machines:
                if m in mach:
                    want |= {(n.node_id, mach[m]), (mach[m], n.node_id)}
    got = {(u, v) for u, v in g.graph.edges()} - before
    ctx.check(got == want, "no_extra_edge", lambda: f"add_operation_machine_edges on a graph whose operation node {victim.node_id} had been removed added extra {sorted(got - want, key=str)[:5]}, missing {sorted(want - got, key=str)[:5]}", builder="blocks_residual")
    ctx.probe("block_applied_on_residual_graph")


def execute(case, ctx):
    import networkx as nx
    from job_shop_lib import Schedule
    from job_shop_lib.dispatching import Dispatcher
    from job_shop_lib.graphs import build_solved_disjunctive_graph

    cfg = case["cfg"]
    spec = cfg["instance"]
    jobs = as_tuple(spec)
    inst = build(spec)
    ctx.step = 0
    kept = {}
    for name in BUILDERS:
        kept[name] = check_builder(ctx, inst, jobs, name)
    if cfg.get("other_size"):
        # graphs of another instance (different size) are built in between; the graphs built before must not change
        from ..instances import as_tuple as _t
        other = build(cfg["other_size"])
        for name in BUILDERS:
            check_builder(ctx, other, _t(cfg["other_size"]), name)
        for name, g in kept.items():
            if g is None:
                continue
            want_nodes, want_edges = graph_spec(jobs, name)
            ids = [n.node_id for n in g.nodes]
            ctx.check(ids == list(range(len(want_nodes))), "nodes_equal_spec", lambda: f"{name}: node ids of a graph built earlier became {ids} after graphs of another instance were built", builder=name)
            bad = [k for k in range(len(want_nodes)) if g.graph.nodes[k]["node"].node_id != k]
            ctx.check(not bad, "nodes_equal_spec", lambda: f"{name}: networkx node attributes of nodes {bad} no longer carry their own id", builder=name)
            got = {(int(u), int(v)) for u, v in g.graph.edges()}
            ctx.check(got == set(want_edges), "no_extra_edge", lambda: f"{name}: edge set of a graph built earlier changed", builder=name)
        ctx.probe("graphs_rechecked_after_other_instance")
    if cfg.get("from_blocks"):
        check_blocks(ctx, inst, jobs)
        check_blocks_on_residual(ctx, inst, jobs, h64(case["ops"]))
        check_blocks_permuted(ctx, inst, jobs, h64(case["ops"]) >> 8)
    if is_flexible(spec):
        ctx.probe("flexible_instance_graphs")
    source = cfg["source"]
    if source == "none":
        return
    rng = random.Random(cfg["solver_seed"])
    sched = None
    dispatcher_built = True
    try:
        if source in ("dispatcher", "sequences"):
            d = Dispatcher(inst, ready_operations_filter=make_filter(cfg["filter"], cfg["filter_style"]) if source == "dispatcher" else None)
            m = Model(jobs, cfg["filter"] if source == "dispatcher" else ())
            if cfg.get("abandoned"):
                # an episode abandoned mid-way: a few dispatches, the usual queries, then reset() - the schedule
                # built afterwards by the same dispatcher must be as good as one built by a fresh dispatcher
                for op in cfg["abandoned"]:
                    if d.schedule.is_complete():
                        break
                    cands = d.available_operations() if op[3] else d.raw_ready_operations()
                    o = cands[op[1] % len(cands)]
                    d.dispatch(o, o.machines[op[2] % len(o.machines)])
                d.current_time()
                d.available_operations()
                d.reset()
                ctx.fault("restart")
                ctx.probe("schedule_built_after_abandoned_episode")
            for op in case["ops"]:
                if d.schedule.is_complete():
                    break
                cands = d.available_operations() if op[3] else d.raw_ready_operations()
                o = cands[op[1] % len(cands)]
                if cfg.get("rejected_requests") and op[1] % 3 == 0:
                    # a refused request (ineligible machine) somewhere in the history must not change the schedule
                    bad = [x for x in range(inst.num_machines) if x not in o.machines]
                    if bad:
                        try:
                            d.dispatch(o, bad[op[2] % len(bad)])
                        except Exception:  # noqa: BLE001
                            ctx.fault("invalid_request:ineligible_machine")
                        else:
                            raise Foreign("C09", "ineligible machine accepted")
                d.dispatch(o, o.machines[op[2] % len(o.machines)])
                ctx.count("dispatch")
            if not d.schedule.is_complete():
                return
            sched = d.schedule
            if source == "sequences":
                sched = Schedule.from_job_sequences(inst, [[so.operation.job_id for so in ml] for ml in sched.schedule])
        elif source == "rule":
            from job_shop_lib.dispatching.rules import DispatchingRuleSolver
            sched = DispatchingRuleSolver(dispatching_rule=cfg["rule"], machine_chooser=rng.choice(["first", "random"])).solve(inst)
        elif source == "cpsat":
            from ortools.sat.python import cp_model
            from job_shop_lib.constraint_programming import ORToolsSolver
            with patched(cp_model, "CpSolver", cpsat_factory(cfg["solver_seed"])):
                cp = ORToolsSolver()
                if cfg["solver_seed"] % 2:
                    # the solver object was used before, on a variant of the same shape with other durations
                    cp.solve(build({**spec, "jobs": [[[ms, d + 1 + (k + p) % 3] for p, (ms, d) in enumerate(job)] for k, job in enumerate(spec["jobs"])]}))
                    ctx.probe("cpsat_solver_reused")
                sched = cp.solve(inst)
            dispatcher_built = False
    except Exception as e:  # noqa: BLE001
        raise Foreign({"dispatcher": "C01", "sequences": "C14", "rule": "C04", "cpsat": "C03"}[source], short_exc(e))
    ctx.step = 1
    mk = sched.makespan()
    orders = [[(so.operation.job_id, so.operation.position_in_job) for so in ml] for ml in sched.schedule]
    ctx.states.add(h64((h64(spec["jobs"]), source, h64(orders))))
    try:
        sg = build_solved_disjunctive_graph(sched)
    except Exception as e:  # noqa: BLE001
        ctx.fail("builder_raised", f"build_solved_disjunctive_graph raised {short_exc(e)}", builder="solved")
        return
    ctx.count("solved_graph")
    g = sg.graph
    # nodes: operations then source, sink
    kinds = [n.node_type.name for n in sg.nodes]
    n = n_ops(spec)
    ctx.check(kinds == ["OPERATION"] * n + ["SOURCE", "SINK"] and all(sg.nodes[i].operation.operation_id == i for i in range(n)), "nodes_equal_spec",
              lambda: f"solved graph: node kinds {kinds}", builder="solved")
    opid = {}
    for j, job in enumerate(jobs):
        for p in range(len(job)):
            opid[(j, p)] = len(opid)
    want = set()
    for j, job in enumerate(jobs):
        for p in range(1, len(job)):
            want.add((opid[(j, p - 1)], opid[(j, p)]))
        want.add((n, opid[(j, 0)]))
        want.add((opid[(j, len(job) - 1)], n + 1))
    for ml in orders:
        for a, b in zip(ml, ml[1:]):
            want.add((opid[a], opid[b]))
    got = {(int(u), int(v)) for u, v in g.edges()}
    ctx.check(got == want, "solved_graph_edges", lambda: f"solved graph ({source}): missing {sorted(want - got)[:5]}, extra {sorted(got - want)[:5]}", builder="solved")
    if not nx.is_directed_acyclic_graph(g):
        ctx.fail("solved_graph_acyclic", f"solved graph of a feasible {source}-built schedule has a cycle: {nx.find_cycle(g)[:6]}")
        return
    dur = {opid[(j, p)]: jobs[j][p][1] for j, job in enumerate(jobs) for p in range(len(job))}
    dist = {}
    for v in nx.topological_sort(g):
        best = max((dist[u] for u in g.predecessors(v)), default=0)
        dist[v] = best + dur.get(v, 0)
    longest = dist.get(n + 1, 0)
    ref = solved_graph_longest_path(jobs, orders)
    ctx.check(ref == longest, "solved_graph_edges", lambda: f"longest path in the library's solved graph {longest} != longest path by the reference construction {ref}", builder="solved_path")
    ctx.check(longest <= mk, "critical_path_not_above_makespan", lambda: f"{source}-built schedule: longest path {longest} > makespan {mk}")
    if dispatcher_built:
        ctx.check(longest == mk, "critical_path_equals_makespan_for_dispatcher_built", lambda: f"{source}-built schedule: longest path {longest} != makespan {mk} (orders {orders})")
    elif longest < mk:
        ctx.probe("cpsat_schedule_with_slack")
    ctx.event(1, source, mk, longest)
    ctx.sim_time = mk
    # a second solved graph for the SAME instance object, from a different schedule: both graphs must stay right
    if cfg.get("second"):
        from job_shop_lib.dispatching.rules import DispatchingRuleSolver

        ctx.step = 2
        try:
            if cfg["second"] == "rule":
                sched2 = DispatchingRuleSolver(dispatching_rule="random", machine_chooser="random").solve(inst)
            else:
                d2 = Dispatcher(inst)
                for op in reversed(case["ops"]):
                    if d2.schedule.is_complete():
                        break
                    cands = d2.raw_ready_operations()
                    o = cands[(op[1] * 7 + 3) % len(cands)]
                    d2.dispatch(o, o.machines[(op[2] + 1) % len(o.machines)])
                sched2 = d2.schedule
                if not sched2.is_complete():
                    return
        except Exception as e:  # noqa: BLE001
            raise Foreign("C04", short_exc(e))
        sg2 = build_solved_disjunctive_graph(sched2)
        orders2 = [[(so.operation.job_id, so.operation.position_in_job) for so in ml] for ml in sched2.schedule]
        for label, gg, oo in (("second", sg2, orders2), ("first (re-read after the second was built)", sg, orders)):
            w2 = set()
            for j, job in enumerate(jobs):
                for p in range(1, len(job)):
                    w2.add((opid[(j, p - 1)], opid[(j, p)]))
                w2.add((n, opid[(j, 0)]))
                w2.add((opid[(j, len(job) - 1)], n + 1))
            for ml in oo:
                for a, b in zip(ml, ml[1:]):
                    w2.add((opid[a], opid[b]))
            g2 = {(int(u), int(v)) for u, v in gg.graph.edges()}
            ctx.check(g2 == w2, "solved_graph_edges", lambda: f"{label} solved graph of the same instance object: missing {sorted(w2 - g2)[:5]}, extra {sorted(g2 - w2)[:5]}", builder="solved_second")
        ctx.probe("two_solved_graphs_same_instance")


def nontrivial(case, ctx):
    spec = case["cfg"]["instance"]
    return len(spec["jobs"]) >= 2 and n_ops(spec) >= 4
