"""C09 - rejected requests change nothing (fault enumeration: every prefix of a
seeded history x every invalid-request kind)."""

from .. import eworld
from ..dworld import (DWorld, gen_filter, FEATURE_TYPES, BUILDERS, INVALID_KINDS, observe_dispatcher, rec_classes, mark_manual)
from ..instances import gen_instance, n_ops
from ..util import stream, cjson, Foreign
from ..core import short_exc, owner_of_exception

PROP = "C09"
LEVEL = "fault_enumeration"
EVAL_COUNTER = "injection"  # evaluations = injected faults
N = {"quick": 3000, "thorough": 60000}
RULE = ("seeded history (dispatcher with the full observer zoo: 7 feature observers, composite, unscheduled-ops, "
        "history, both rewards, residual updater over a seeded graph builder, a recording observer; or a single/multi "
        "environment) and, inside it, EVERY prefix length 0..n x EVERY invalid-request kind (6 dispatcher kinds / 5 "
        "environment kinds) injected: must raise, full public snapshot before == after, no callback; end state equals "
        "the twin run without injections; evaluations = injected faults; non-trivial: history >= 3 steps; distinct = "
        "distinct (config, history) hashes")
REAL = ["Dispatcher", "Schedule", "ScheduledOperation", "all feature observers", "CompositeFeatureObserver", "UnscheduledOperationsObserver",
        "HistoryObserver", "reward observers", "ResidualGraphUpdater", "SingleJobShopGraphEnv", "MultiJobShopGraphEnv"]
STUB = ["recording observer (harness peer)"]
ASSUMPTIONS = ["any exception type counts as a rejection", "the private per-state query cache is not part of the observable state"]
STATE_MEASURE = "distinct (instance hash, tracking vectors, fault kind) tuples at which a fault was injected"


def zoo(rng):
    obs = [{"t": t, "ft": None} for t in FEATURE_TYPES]
    rng.shuffle(obs)
    rest = [{"t": "unscheduled"}, {"t": "history"}, {"t": "makespan_reward"}, {"t": "idle_reward"},
            {"t": "residual", "builder": rng.choice(BUILDERS), "rm": True, "rj": True}]
    rng.shuffle(rest)
    k = rng.randint(0, len(rest))
    out = rest[:k] + obs + rest[k:] + [{"t": "composite"}]
    return out


def generate(seed, tier):
    rng = stream(seed, "c09")
    if rng.random() < 0.3:
        cfg = eworld.gen_env_cfg(rng, padding=True if rng.random() < 0.8 else False)
        if cfg["env"] == "single":
            n = n_ops(cfg["instance"])
        else:
            n = cfg["gen"]["num_jobs"][1] * cfg["gen"]["num_machines"][1]
        ops = [["env_reset"]] + [["env_step", rng.randrange(64), rng.randrange(64), int(rng.random() < 0.3), int(rng.random() < 0.5)] for _ in range(min(n, 12))]
        return {"prop": PROP, "kind": "env", "cfg": cfg, "ops": ops, "arg_seed": rng.randrange(1 << 30)}
    names, style = gen_filter(rng, None, p_none=0.5, user=0.15)
    spec = gen_instance(rng, sparse_ids=0.03, max_jobs=4, max_machines=4, max_ops=4, positive=True if names else None)
    n = n_ops(spec)
    ops = [["dispatch", rng.randrange(64), rng.randrange(64), int(rng.random() < 0.5)] for _ in range(n if rng.random() < 0.7 else rng.randint(0, n))]
    cfg = {"instance": spec, "filter": names, "filter_style": style, "observers": mark_manual(stream(seed, "c09-manual"), zoo(rng), 0.06)}
    rs = stream(seed, "c09-swap")
    if rs.random() < 0.15:
        # at one point of the history the user replaces the filter through the public attribute (it takes effect with
        # the next dispatch: what was asked before stays answered as it was)
        from ..model import FILTERS

        cfg["swap_filter"] = {"at": rs.randint(0, max(0, len(ops) - 1)), "names": [rs.choice(FILTERS)] if (rs.random() < 0.7 and all(d > 0 for job in spec["jobs"] for _, d in job)) else []}
    return {"prop": PROP, "kind": "dispatch", "cfg": cfg, "ops": ops, "arg_seed": rng.randrange(1 << 30)}


def snap(x):
    return cjson(x)


def diff_keys(a, b, path=""):
    """First differing path between two JSON-able structures."""
    if type(a) != type(b):
        return f"{path}: {a!r} -> {b!r}"
    if isinstance(a, dict):
        for k in a:
            if k not in b:
                return f"{path}.{k} disappeared"
            d = diff_keys(a[k], b[k], f"{path}.{k}")
            if d:
                return d
        for k in b:
            if k not in a:
                return f"{path}.{k} appeared"
        return None
    if isinstance(a, (list, tuple)):
        if len(a) != len(b):
            return f"{path}: length {len(a)} -> {len(b)}"
        for i, (x, y) in enumerate(zip(a, b)):
            d = diff_keys(x, y, f"{path}[{i}]")
            if d:
                return d
        return None
    return None if a == b else f"{path}: {a!r} -> {b!r}"


def execute_dispatch(case, ctx):
    import random

    cfg = case["cfg"]
    sink = []
    w = DWorld(cfg, ctx)
    twin = DWorld(cfg, ctx)
    if len(w.observers) != len(cfg["observers"]):
        return
    rec_classes()["single"](w.disp, tag="rec", sink=sink)
    rec_classes()["single"](twin.disp, tag="rec", sink=[])
    arg = random.Random(case["arg_seed"])
    only = case.get("only")
    ops = case["ops"]
    def look(x):
        """The dispatcher, its observers and what it answers when asked (asking is part of looking)."""
        out = observe_dispatcher(x.disp)
        try:
            out["available"] = [(o.job_id, o.position_in_job) for o in x.disp.available_operations()]
            out["current_time"] = x.disp.current_time()
        except Exception as e:  # noqa: BLE001
            raise Foreign(owner_of_exception(e, "C05"), f"query raised {short_exc(e)}")
        return out

    swap = cfg.get("swap_filter")
    for k in range(len(ops) + 1):
        ctx.step = k
        if swap and swap["at"] == k:
            from ..dworld import make_filter

            for x in (w, twin):
                look(x)
                x.disp.ready_operations_filter = make_filter(swap["names"], "callable")
                x.model.filt = tuple(swap["names"])
            ctx.probe("filter_replaced_mid_history")
        # ---- inject every kind at this prefix
        for kind in INVALID_KINDS:
            a, b = arg.randrange(64), arg.randrange(64)
            if only and only != [k, kind]:
                continue
            built = w.invalid_request(kind, a, b)
            if built is None:
                continue
            thunk, desc = built
            before = look(w)
            n_cb = len(sink)
            ctx.fault("invalid_request:" + kind)
            ctx.count("injection")
            ctx.states.add(hash_state(w, kind))
            try:
                thunk()
            except Exception as e:  # noqa: BLE001
                outcome = type(e).__name__
            else:
                outcome = None
            after = look(w)
            ctx.event(k, kind, desc, outcome)
            if outcome is None:
                ctx.fail("invalid_request_must_raise", f"prefix {k}: {desc} did not raise", kind=kind)
            if snap(before) != snap(after):
                ctx.fail("rejected_request_changes_nothing", f"prefix {k}: {desc} raised {outcome} but state changed at {diff_keys(before, after)}", kind=kind)
            if len(sink) != n_cb:
                ctx.fail("rejected_request_notifies_nobody", f"prefix {k}: {desc} raised {outcome} but observers were called: {sink[n_cb:]}", kind=kind)
        if k == len(ops):
            break
        # ---- next valid dispatch, on both worlds
        op = ops[k]
        r = w.resolve_dispatch(op[1], op[2], op[3])
        if r is None:
            continue
        o, mm = r
        w.do_dispatch(o, mm)
        twin.do_dispatch(twin.op_of(o.job_id, o.position_in_job), mm)
        ctx.count("dispatch")
        ctx.event(k, "dispatch", (o.job_id, o.position_in_job, mm))
        sa, sb = observe_dispatcher(w.disp), observe_dispatcher(twin.disp)
        if snap(sa) != snap(sb):
            ctx.fail("as_if_never_made", f"after dispatch #{k + 1}: world with rejected requests differs from the twin without them at {diff_keys(sb, sa)}")
    if len(ops) >= 3:
        ctx.probe("history_len_3plus")


def hash_state(w, kind):
    from ..util import h64

    return h64((w.abstract_state(), kind))


def execute_env(case, ctx):
    import random

    cfg = case["cfg"]
    # both worlds draw their instances from the shared global RNG (multi env):
    # re-seed identically before building each of them
    st = random.getstate()
    w = eworld.EnvWorld(cfg, ctx, owner="C18")
    random.setstate(st)
    twin = eworld.EnvWorld(cfg, ctx, owner="C18")
    if w.dead or twin.dead:
        return
    arg = random.Random(case["arg_seed"])
    only = case.get("only")
    ops = case["ops"]
    started = False
    for k in range(len(ops) + 1):
        ctx.step = k
        if started:
            for kind in eworld.ENV_INVALID:
                a, b = arg.randrange(64), arg.randrange(64)
                if only and only != [k, kind]:
                    continue
                built = w.invalid_action(kind, a, b)
                if built is None:
                    continue
                act, desc = built
                before = w.observe()
                ctx.fault("invalid_request:env_" + kind)
                ctx.count("injection")
                from ..util import h64

                ctx.states.add(h64((w.inst_hash, tuple(w.disp.job_next_operation_index), tuple(w.disp.machine_next_available_time), kind)))
                try:
                    w.env.step(act)
                except Exception as e:  # noqa: BLE001
                    outcome = type(e).__name__
                else:
                    outcome = None
                after = w.observe()
                ctx.event(k, kind, desc, outcome)
                if outcome is None:
                    ctx.fail("invalid_request_must_raise", f"prefix {k}: env {desc} did not raise", kind="env_" + kind)
                if snap(before) != snap(after):
                    ctx.fail("rejected_request_changes_nothing", f"prefix {k}: env {desc} raised {outcome} but state changed at {diff_keys(before, after)}", kind="env_" + kind)
        if k == len(ops):
            break
        op = ops[k]
        if op[0] == "env_reset":
            st = random.getstate()
            w.reset()
            st2 = random.getstate()
            random.setstate(st)
            twin.reset()
            random.setstate(st2)
            if w.dead or twin.dead:
                return
            started = True
            ctx.count("env_reset")
        else:
            if not started:
                continue
            r = w.resolve_step(op[1], op[2], op[3], op[4])
            if r is None:
                continue
            w.step(*r)
            twin.step(*r)
            if w.dead or twin.dead:
                return
            ctx.count("env_step")
            ctx.event(k, "env_step", r[3])
        sa, sb = w.observe(), twin.observe()
        if snap(sa) != snap(sb):
            ctx.fail("as_if_never_made", f"after op {k}: env with rejected requests differs from the twin without them at {diff_keys(sb, sa)}")


def execute(case, ctx):
    if case["kind"] == "env":
        try:
            return execute_env(case, ctx)
        except Foreign:
            raise
    return execute_dispatch(case, ctx)


def nontrivial(case, ctx):
    return ctx.counts.get("dispatch", 0) + ctx.counts.get("env_step", 0) >= 3 and ctx.counts.get("injection", 0) >= 3


def simplify(case):
    if not case.get("only"):
        kinds = INVALID_KINDS if case["kind"] == "dispatch" else eworld.ENV_INVALID
        for k in range(len(case["ops"]) + 1):
            for kind in kinds:
                yield {**case, "only": [k, kind]}
