"""C05 - state queries agree with the schedule, whatever was asked before."""

from ..dworld import (DWorld, Hooks, run_ops, gen_dispatch_ops, gen_filter, QUERIES0, QUERIES1,
                      norm_query, expected_query, make_observer)
from ..instances import gen_instance, n_ops
from ..model import UNDEFINED
from ..util import stream
from ..core import short_exc

PROP = "C05"
LEVEL = "exploration"
N = {"quick": 80000, "thorough": 1600000}
RULE = ("seeded instance x filter x op list with query bursts (1-8 queries, random order, repeats) between all "
        "dispatches, invalid requests and resets; every single answer is compared with the reference model's "
        "from-scratch recomputation for the current state (multiset + no duplicates), plus partition laws and the is_ongoing predicate; "
        "filters include user-defined ones (one of which may return an empty list); "
        "non-trivial: >= 2 dispatches and >= 4 queries; distinct = distinct (config, op list) hashes")
REAL = ["Dispatcher (all cached queries)", "UnscheduledOperationsObserver"]
STUB = []
ASSUMPTIONS = ["reference model query definitions follow the docstrings",
               "where the dominated filter is fed a zero-duration operation its (structurally valid) result is taken as given"]


def generate(seed, tier):
    rng = stream(seed, "c05")
    big = tier == "thorough" and rng.random() < 0.15
    spec = gen_instance(rng, huge=0.03, sparse_ids=0.03, large=0.008, max_jobs=6 if big else 4, max_machines=5 if big else 4, max_ops=5 if big else 4)
    names, style = gen_filter(rng, None, p_none=0.45, user=0.15, emptying=True)
    faulty = rng.random() < 0.5
    extra = [(0.04, lambda r: ["mk_uns"])]
    ops = gen_dispatch_ops(rng, n_ops(spec), p_solve_rest=0.03 if rng.random() < 0.4 else 0.0, p_query=0.45, p_invalid=0.08 if faulty else 0.0,
                           p_reset=0.04 if faulty else 0.0, extra=extra, episodes=2 if rng.random() < 0.15 else 1)
    obs = []
    if all(d > 0 for job in spec["jobs"] for _, d in job) and rng.random() < 0.25:
        from ..dworld import BUILDERS
        obs = [{"t": "residual", "builder": rng.choice(BUILDERS), "rm": True, "rj": True}]
        if rng.random() < 0.5:
            obs = [{"t": "is_scheduled", "ft": None}, {"t": "earliest_start_time", "ft": None}] + obs
    return {"prop": PROP, "cfg": {"instance": spec, "filter": names, "filter_style": style, "observers": obs,
                                  "uns_at_start": rng.random() < 0.5}, "ops": ops}


class H(Hooks):
    def __init__(self):
        self.uns = None
        self.asked = []  # queries asked in the current state

    def after(self, w, i, kind, info):
        if kind in ("dispatch", "reset"):
            self.asked = []

    def extra(self, w, i, op):
        if op[0] == "mk_uns":
            if self.uns is None:
                self.uns = w.add_observer({"t": "unscheduled"}, owner="C05")
                w.ctx.probe("uns_observer_created_mid_history" if w.model.hist else "uns_observer_created_initially")
            return "ok"
        return super().extra(w, i, op)

    def on_query(self, w, name, arg):
        ctx, m, d = w.ctx, w.model, w.disp
        w.sync_available_override()
        before = ",".join(self.asked[-3:])
        if name in QUERIES0:
            raw = w.call_query(name)
            got = norm_query(w, name, raw)
            exp = expected_query(w, name)
            if name == "current_time":
                ctx.check(got == exp, "query_equals_spec", lambda: f"current_time() = {got}, spec {exp} (earlier in this state: {before})", query=name)
            else:
                if len(set(got)) != len(got):
                    ctx.fail("query_no_duplicates", f"{name}() returned duplicates: {got} (earlier in this state: {before})", query=name)
                ctx.check(sorted(got) == exp, "query_equals_spec", lambda: f"{name}() = {sorted(got)}, spec {exp} (earlier in this state: {before})", query=name)
            if name == "uncompleted_operations" and "unscheduled_operations" not in self.asked:
                ctx.probe("uncompleted_before_unscheduled")
            if name == "ongoing_operations" and got:
                ctx.probe("operation_ongoing_at_query_time")
        elif name in ("earliest_start_time", "min_start_time", "start_time"):
            r = w.arg_query(name, arg)
            if r is not None:
                got, exp, what = r
                ctx.check(got == exp, "query_equals_spec", lambda: f"{name}({what}) = {got}, spec {exp} (earlier in this state: {before})", query=name)
        elif name == "next_operation":
            j = arg % m.nj
            nxt = m.nxt[j]
            try:
                got = d.next_operation(j)
            except Exception as e:  # noqa: BLE001
                ctx.check(nxt >= len(m.jobs[j]), "query_equals_spec", lambda: f"next_operation({j}) raised {short_exc(e)} but job has operations left", query=name)
                ctx.probe("next_operation_raises_for_finished_job")
            else:
                ctx.check(nxt < len(m.jobs[j]) and w.jp(got) == (j, nxt), "query_equals_spec",
                          lambda: f"next_operation({j}) returned {w.jp(got)}, spec {(j, nxt) if nxt < len(m.jobs[j]) else 'raise'}", query=name)
        elif name == "is_scheduled":
            j, p = m.ops[arg % m.n_ops]
            got = w.call_query(name, w.op_of(j, p))
            ctx.check(bool(got) == (p < m.nxt[j]), "query_equals_spec", lambda: f"is_scheduled(({j},{p})) = {got}, spec {p < m.nxt[j]}", query=name)
        elif name == "is_ongoing":
            # the predicate form of ongoing_operations(): ongoing and completed partition the scheduled operations
            if m.hist and m.now() is not UNDEFINED:
                hh = m.hist[arg % len(m.hist)]
                so = next(s for s in d.schedule.schedule[hh[2]] if w.jp(s.operation) == (hh[0], hh[1]))
                got = w.call_query(name, so)
                exp = hh[4] > m.now()
                ctx.check(bool(got) == exp, "query_equals_spec", lambda: f"is_ongoing(op ({hh[0]},{hh[1]}) scheduled {hh[3]}-{hh[4]}) = {got} at current time {m.now()}; "
                          f"ongoing_operations() spec: {'ongoing' if exp else 'completed'} (earlier in this state: {before})", query=name)
                ctx.probe("is_ongoing_on_completed_operation") if not exp else None
        elif name == "uns_observer" and self.uns is not None:
            got = sorted(w.jp(o) for o in self.uns.unscheduled_operations)
            exp = sorted(m.unscheduled())
            ctx.check(got == exp, "unscheduled_observer_equals_spec", lambda: f"UnscheduledOperationsObserver has {got}, spec {exp}")
            ctx.check(self.uns.num_unscheduled_operations == len(exp), "unscheduled_observer_equals_spec",
                      lambda: f"num_unscheduled_operations = {self.uns.num_unscheduled_operations}, spec {len(exp)}")
        self.asked.append(name)

    def partition_laws(self, w):
        """Asked in a fixed order at the end of the run, on top of whatever
        was asked before."""
        ctx = w.ctx
        w.sync_available_override()
        q = {n: norm_query(w, n, w.call_query(n)) for n in
             ("scheduled_operations", "unscheduled_operations", "ongoing_operations", "completed_operations", "uncompleted_operations")}
        allops = sorted(w.model.ops)
        sch, uns = q["scheduled_operations"], q["unscheduled_operations"]
        ong = [(j, p) for j, p, _, _ in q["ongoing_operations"]]
        ctx.check(sorted(sch + uns) == allops, "partition_laws", lambda: f"scheduled {sch} + unscheduled {uns} != all operations")
        ctx.check(sorted(ong + list(q["completed_operations"])) == sorted(sch), "partition_laws", lambda: f"ongoing {ong} + completed {q['completed_operations']} != scheduled {sch}")
        ctx.check(sorted(q["uncompleted_operations"]) == sorted(uns + ong), "partition_laws", lambda: f"uncompleted {q['uncompleted_operations']} != unscheduled {uns} + ongoing {ong}")


def execute(case, ctx):
    w = DWorld(case["cfg"], ctx)
    h = H()
    if case["cfg"].get("uns_at_start"):
        h.extra(w, -1, ["mk_uns"])
    run_ops(w, case["ops"], h)
    ctx.step = len(case["ops"])
    h.partition_laws(w)


def nontrivial(case, ctx):
    return ctx.counts.get("dispatch", 0) >= 2 and ctx.counts.get("query", 0) >= 4
