"""C02 - start times are forced, bookkeeping matches, histories replay."""

from ..dworld import DWorld, Hooks, run_ops, gen_dispatch_ops, gen_filter, observe_dispatcher
from ..instances import gen_instance, n_ops, build, is_flexible
from ..util import stream, Foreign
from ..core import short_exc

PROP = "C02"
LEVEL = "exploration"
N = {"quick": 60000, "thorough": 1200000}
RULE = ("seeded instance x filter x op list; after every accepted dispatch start = max(job ready, machine free) "
        "by the reference model and all tracking values equal those derived from the schedule; at every reset "
        "and at the end the recorded (operation, machine) history is re-dispatched on a fresh dispatcher, on the "
        "same dispatcher after reset() (history list held by reference, or frozen by unsubscribing the observer first), in job-sequence form "
        "twice from one record, and through create_gantt_chart_frames' replay path; an invalid request that is accepted is judged "
        "against the forced-start rule on the real schedule; non-trivial: >= 3 "
        "accepted dispatches; distinct = distinct (config, op list) hashes")
REAL = ["Dispatcher", "Schedule", "HistoryObserver", "create_gantt_chart_frames (replay branch)"]
STUB = ["plot_function (no-op figure)", "_save_frame (captures the schedule instead of writing a PNG)"]
ASSUMPTIONS = ["reference model start-time rule (max of job ready and machine free) is the specification"]


def generate(seed, tier):
    rng = stream(seed, "c02")
    big = tier == "thorough" and rng.random() < 0.15
    spec = gen_instance(rng, huge=0.03, sparse_ids=0.03, large=0.008, max_jobs=6 if big else 4, max_machines=5 if big else 4, max_ops=6 if big else 4)
    names, style = gen_filter(rng, None, p_none=0.5, user=0.15)
    faulty = rng.random() < 0.5
    ops = gen_dispatch_ops(rng, n_ops(spec), p_fork=0.03 if rng.random() < 0.3 else 0.0, p_solve_rest=0.03 if rng.random() < 0.4 else 0.0, p_query=0.08, p_invalid=0.1 if faulty else 0.0,
                           p_reset=0.05 if faulty else 0.0, episodes=2 if rng.random() < 0.2 else 1)
    return {"prop": PROP, "cfg": {"instance": spec, "filter": names, "filter_style": style,
                                  "observers": [{"t": "history", "manual": stream(seed, "c02-manual").random() < 0.15}], "gif_replay": rng.random() < 0.35}, "ops": ops}


def sched_of(d):
    return [[(so.operation.operation_id, so.start_time, so.machine_id) for so in ml] for ml in d.schedule.schedule]


class H(Hooks):
    def after(self, w, i, kind, info):
        ctx, d, m = w.ctx, w.disp, w.model
        if kind == "dispatch":
            o, mm, (s, e) = info
            real = [so for so in d.schedule.schedule[mm] if so.operation is o]
            if len(real) != 1:
                ctx.fail("dispatched_operation_listed_once", f"op ({o.job_id},{o.position_in_job}) appears {len(real)} times in machine {mm}'s list")
            elif real[0].start_time != s:
                ctx.fail("start_is_max_of_job_and_machine", f"op ({o.job_id},{o.position_in_job}) on m{mm}: start {real[0].start_time}, spec max(job ready, machine free) = {s}")
            if s > 0 and s == m.hist[-1][3] and len(m.hist) > 1:
                ctx.probe("start_after_wait")
        exp = {
            "machine_next_available_time": m.mavail, "job_next_available_time": m.javail,
            "job_next_operation_index": m.nxt,
        }
        for name, val in exp.items():
            got = list(getattr(d, name))
            if got != val:
                ctx.fail("tracking_equals_derived", f"after op {i} ({kind}): {name} = {got}, derived from schedule = {val}", field=name)
        if d.schedule.num_scheduled_operations != len(m.hist):
            ctx.fail("tracking_equals_derived", f"num_scheduled_operations = {d.schedule.num_scheduled_operations}, history has {len(m.hist)}", field="num")
        if d.schedule.makespan() != m.makespan():
            ctx.fail("tracking_equals_derived", f"makespan() = {d.schedule.makespan()}, max end = {m.makespan()}", field="makespan")
        if sched_of(d) != m.msched():
            ctx.fail("schedule_equals_model", f"schedule {sched_of(d)} != model {m.msched()}")

    def on_reset(self, w):
        replay_oracles(w, same_too=False)
        w.do_reset()

    def on_invalid(self, w, kind, thunk, desc):
        """A request the specification refuses.  Refusing it is C09's business; but when it is *accepted* it is an
        accepted dispatch, and the statement about accepted dispatches is judged on the real schedule itself
        (the model has no transition for it) before the run is handed to C09."""
        d, ctx = w.disp, w.ctx
        before = {id(so) for ml in d.schedule.schedule for so in ml}
        try:
            thunk()
        except Exception:  # noqa: BLE001 - any exception type is a rejection
            return "rejected"
        ends = {}
        for ml in d.schedule.schedule:
            for so in ml:
                ends.setdefault((so.operation.job_id, so.operation.position_in_job), so.end_time)
        for mm, ml in enumerate(d.schedule.schedule):
            for k, so in enumerate(ml):
                if id(so) in before:
                    continue
                j, pos = so.operation.job_id, so.operation.position_in_job
                if pos > 0 and (j, pos - 1) not in ends:
                    ctx.fail("accepted_dispatch_start_is_forced", f"{desc} was accepted: op ({j},{pos}) starts at {so.start_time} although its job predecessor is not scheduled (it has no end)")
                forced = max(ends[(j, pos - 1)] if pos > 0 else 0, ml[k - 1].end_time if k > 0 else 0)
                if so.start_time != forced:
                    ctx.fail("accepted_dispatch_start_is_forced", f"{desc} was accepted: op ({j},{pos}) on m{mm} starts at {so.start_time}, forced start is {forced}")
        nxt = []
        for j, job in enumerate(w.inst.jobs):
            n = 0
            while n < len(job) and (j, n) in ends:
                n += 1
            nxt.append(n)
        if list(d.job_next_operation_index) != nxt:
            ctx.fail("tracking_equals_derived", f"{desc} was accepted: job_next_operation_index = {list(d.job_next_operation_index)}, first unscheduled positions in the schedule = {nxt}", field="job_next_operation_index")
        mav = [max((so.end_time for so in ml), default=0) for ml in d.schedule.schedule]
        if list(d.machine_next_available_time) != mav:
            ctx.fail("tracking_equals_derived", f"{desc} was accepted: machine_next_available_time = {list(d.machine_next_available_time)}, derived from schedule = {mav}", field="machine_next_available_time")
        raise Foreign("C09", f"invalid request accepted: {desc}")


def replay_oracles(w, same_too=True):
    """The recorded history re-dispatched must reproduce the schedule."""
    from job_shop_lib.dispatching import Dispatcher

    ctx = w.ctx
    hist_obs = w.observers[0][1]
    want = sched_of(w.disp)
    accepted_before = list(w.accepted)
    recorded = [(so.operation, so.machine_id) for so in hist_obs.history]
    if [(o.operation_id, mm) for o, mm in recorded] != w.accepted:
        # the recorded history is the durable log the replay promise is about
        ctx.fail("recorded_history_is_the_dispatch_sequence",
                 f"HistoryObserver recorded {[(o.operation_id, mm) for o, mm in recorded]}, the accepted dispatches since the last reset were {w.accepted}")
        return
    if not recorded:
        return
    # (a) fresh dispatcher, fresh instance object (operations matched by id)
    inst2 = build(w.spec)
    by_id = [op for job in inst2.jobs for op in job]
    fresh = Dispatcher(inst2)
    try:
        for o, mm in recorded:
            fresh.dispatch(by_id[o.operation_id], mm)
    except Exception as e:  # noqa: BLE001
        ctx.fail("replay_on_fresh_dispatcher", f"re-dispatching the recorded history raised {short_exc(e)}")
    if sched_of(fresh) != want:
        ctx.fail("replay_on_fresh_dispatcher", f"replay gives {sched_of(fresh)}, original {want}")
    ctx.probe("replay_fresh")
    # (a') the same history in its per-machine form (job sequences), re-dispatched twice from the same record
    if not is_flexible(w.spec) and len(recorded) == n_ops(w.spec):  # (job sequences describe complete schedules only)
        from job_shop_lib import Schedule

        seqs = [[] for _ in range(inst2.num_machines)]
        for o, mm in recorded:
            seqs[mm].append(o.job_id)
        seqs0 = [list(s) for s in seqs]
        for attempt in (1, 2):
            try:
                s4 = Schedule.from_job_sequences(inst2, seqs)
            except Exception as e:  # noqa: BLE001
                ctx.fail("replay_from_job_sequences", f"re-dispatching the per-machine job sequences {seqs0} (attempt {attempt} with the same record, now {seqs}) raised {short_exc(e)}")
                break
            got4 = [[(so.operation.operation_id, so.start_time, so.machine_id) for so in ml] for ml in s4.schedule]
            if got4 != want:
                ctx.fail("replay_from_job_sequences", f"re-dispatching the per-machine job sequences {seqs0} (attempt {attempt}) gives {got4}, original {want}")
                break
        ctx.probe("replay_job_sequences")
    # (c) the GIF/video replay path
    if w.cfg.get("gif_replay"):
        import job_shop_lib.visualization._gantt_chart_video_and_gif_creation as gm

        if not hasattr(gm, "_save_frame"):
            return  # the seam this oracle needs no longer exists: the oracle is skipped, not failed

        frames = []
        saved = gm._save_frame
        gm._save_frame = lambda fig, d, n: None
        try:
            def plot(schedule, makespan=None, available_operations=None, current_time=None):
                frames.append([[(so.operation.operation_id, so.start_time, so.machine_id) for so in ml] for ml in schedule.schedule])
                return None
            try:
                gm.create_gantt_chart_frames("/nonexistent-frames-dir", w.inst, None, plot, False, list(hist_obs.history))
            except Exception as e:  # noqa: BLE001
                ctx.fail("replay_through_frame_creation", f"create_gantt_chart_frames raised {short_exc(e)}")
        finally:
            gm._save_frame = saved
        if len(frames) != len(recorded) or (frames and frames[-1] != want):
            ctx.fail("replay_through_frame_creation", f"{len(frames)} frames for {len(recorded)} dispatches; last frame {frames[-1] if frames else None} vs {want}")
        ctx.probe("replay_gif_path")
    # (b) the same dispatcher after reset()
    if same_too:
        held = hist_obs.history  # the user keeps the list they were given, not a copy
        detached = len(accepted_before) % 3 == 0 and any(o is hist_obs for o in w.disp.subscribers)
        if detached:
            # the recording is frozen by detaching the observer before the dispatcher is reset (what the library's
            # own frame creation does): an unsubscribed observer receives nothing, so its record stays as it is
            w.disp.unsubscribe(hist_obs)
            ctx.probe("history_frozen_by_unsubscribing")
        w.do_reset()
        if detached:
            held = hist_obs.history
        recorded = [(so.operation, so.machine_id) for so in held]
        if [(o.operation_id, mm) for o, mm in recorded] != [(o.operation_id, mm) for o, mm in [(w.ops_by_id[i], mm) for i, mm in accepted_before]]:
            ctx.fail("recorded_history_survives_reset", f"the history list obtained before reset() now holds {[(o.operation_id, mm) for o, mm in recorded]}, it recorded {accepted_before}")
        try:
            for o, mm in recorded:
                w.disp.dispatch(o, mm)
                w.model.dispatch(o.job_id, o.position_in_job, mm)
        except Exception as e:  # noqa: BLE001
            ctx.fail("replay_after_reset", f"re-dispatching after reset() raised {short_exc(e)}")
        if sched_of(w.disp) != want:
            ctx.fail("replay_after_reset", f"replay after reset gives {sched_of(w.disp)}, original {want}")
        ctx.probe("replay_same_after_reset")


def execute(case, ctx):
    w = DWorld(case["cfg"], ctx)
    run_ops(w, case["ops"], H())
    ctx.step = len(case["ops"])
    replay_oracles(w, same_too=True)


def nontrivial(case, ctx):
    return ctx.counts.get("dispatch", 0) >= 3
