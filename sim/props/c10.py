"""C10 - observers see every dispatch once, in order, after it took effect."""

from ..dworld import DWorld, Hooks, run_ops, gen_dispatch_ops, gen_filter, rec_classes
from ..instances import gen_instance, n_ops
from ..util import stream
from ..core import short_exc

PROP = "C10"
LEVEL = "exploration"
N = {"quick": 100000, "thorough": 2000000}
RULE = ("seeded instance x filter x op list interleaving dispatches, rejected requests and resets with subscription "
        "churn (construct singleton / non-singleton recording observers subscribed or not, unsubscribe, re-subscribe, "
        "duplicate singleton, a user refinement of a singleton class, create_or_get_observer with conditions, HistoryObserver, UnscheduledOperationsObserver, non-singleton DurationObservers, refused feature-observer requests); the global callback log must "
        "equal the model's (one update per subscriber in subscription order, seen post-state inside the callback); "
        "non-trivial: >= 3 dispatches and >= 2 churn ops; distinct = distinct (config, op list) hashes")
REAL = ["Dispatcher.dispatch/reset/subscribe/unsubscribe/create_or_get_observer", "DispatcherObserver base (singleton guard)", "HistoryObserver", "UnscheduledOperationsObserver", "DurationObserver"]
STUB = ["recording observer subclasses defined by the harness (peers)"]
ASSUMPTIONS = ["re-entrant (un)subscription from inside update() and subscribing one object twice through raw subscribe() are out of scope"]

CHURN = ["new_single", "new_multi", "new_other", "new_history", "unsub", "resub", "dup_single", "cog", "bad_feature_observer", "new_subsingle", "new_uns", "new_feat"]
SILENT = ("history", "uns", "feat")  # library observers: they do not write to the callback log


def generate(seed, tier):
    rng = stream(seed, "c10")
    names, style = gen_filter(rng, None, p_none=0.6, user=0.15)
    spec = gen_instance(rng, sparse_ids=0.03, large=0.008, max_jobs=4, max_machines=4, max_ops=4, positive=True if names else None)
    faulty = rng.random() < 0.6

    def churn(r):
        return ["obs", r.choice(CHURN), r.randrange(64), r.randrange(64)]

    ops = [churn(rng) for _ in range(rng.randint(0, 3))]
    ops += gen_dispatch_ops(rng, n_ops(spec), p_query=0.05, p_invalid=0.1 if faulty else 0.0, p_reset=0.05 if faulty else 0.0,
                            extra=[(0.25, churn)], episodes=2 if rng.random() < 0.15 else 1)
    return {"prop": PROP, "cfg": {"instance": spec, "filter": names, "filter_style": style}, "ops": ops}


def peek(d):
    return (
        d.schedule.num_scheduled_operations,
        tuple(d.job_next_operation_index),
        tuple(sorted((o.job_id, o.position_in_job) for o in d.scheduled_operations())),
        d.current_time(),
        tuple(len(ml) for ml in d.schedule.schedule),
        tuple(d.is_scheduled(o) for job in d.instance.jobs for o in job),
    )


def model_peek(m):
    sched = m.scheduled()
    per_machine = [0] * m.nm
    for h in m.hist:
        per_machine[h[2]] += 1
    ss = set(sched)
    return (len(m.hist), tuple(m.nxt), tuple(sorted(sched)), m.now(), tuple(per_machine), tuple(o in ss for o in m.ops))


class H(Hooks):
    def __init__(self, w):
        self.sink = []
        self.seen = 0  # sink entries already verified
        self.objs = {}  # tag -> observer object (recording and history)
        self.kind = {}  # tag -> "single" | "multi" | "other" | "history"
        self.subscribed = []  # tags in subscription order (model)
        self.hist_expect = {}  # history tag -> expected history
        self.k = 0

    # -------------------------------------------------------------- helpers
    def new_tag(self):
        self.k += 1
        return f"r{self.k}"

    @staticmethod
    def isa(k, kind):
        """An observer of kind `k` is an instance of the class of `kind` (subsingle refines single)."""
        return k == kind or (kind == "single" and k == "subsingle")

    def subscribed_of(self, kind):
        return [t for t in self.subscribed if self.isa(self.kind[t], kind)]

    def check_subscriber_list(self, w, when, allow_dependencies=False):
        real = w.disp.subscribers
        want = [self.objs[t] for t in self.subscribed]
        ok = len(real) == len(want) and all(a is b for a, b in zip(real, want))
        w.ctx.check(ok, "subscriber_list_equals_model", lambda: f"{when}: dispatcher.subscribers = {[getattr(o, 'tag', type(o).__name__) for o in real]}, model {self.subscribed}")

    def expect_log(self, w, expected, when):
        got = self.sink[self.seen:]
        self.seen = len(self.sink)
        if got != expected:
            w.ctx.fail("callback_log_equals_model", f"{when}: callbacks {got}, expected {expected}")

    # ------------------------------------------------------------------ ops
    def extra(self, w, i, op):
        _, action, a, b = op
        rc = rec_classes()
        ctx, d = w.ctx, w.disp
        ctx.fault("subscription_churn:" + action)
        if action in ("new_single", "new_multi", "new_other", "new_history", "dup_single", "new_subsingle", "new_uns", "new_feat"):
            kind = {"new_single": "single", "new_multi": "multi", "new_other": "other", "new_history": "history", "dup_single": "single", "new_subsingle": "subsingle", "new_uns": "uns", "new_feat": "feat"}[action]
            singleton_clash = kind in ("single", "other", "history", "subsingle", "uns") and bool(self.subscribed_of(kind))
            # a refinement constructed while only its base type is subscribed: the statement does not say which
            # of the two readings of "type" applies, so either outcome is taken as it comes
            free = kind == "subsingle" and not singleton_clash and any(self.kind[t] == "single" for t in self.subscribed)
            if action == "dup_single" and not singleton_clash:
                return "skip"
            sub = True if action == "dup_single" else (b % 4 != 0)
            tag = self.new_tag()
            try:
                if kind == "history":
                    from job_shop_lib.dispatching import HistoryObserver

                    o = HistoryObserver(d, subscribe=sub)
                    o.tag = tag
                elif kind == "feat":
                    # a built-in, non-singleton feature observer: several of them (with equal contents) may be subscribed
                    from job_shop_lib.dispatching.feature_observers import DurationObserver

                    o = DurationObserver(d, subscribe=sub)
                    o.tag = tag
                elif kind == "uns":
                    from job_shop_lib.dispatching import UnscheduledOperationsObserver

                    o = UnscheduledOperationsObserver(d, subscribe=sub)
                    o.tag = tag
                else:
                    o = rc[kind](d, subscribe=sub, tag=tag, sink=self.sink, peek=peek)
            except Exception as e:  # noqa: BLE001
                ctx.check(singleton_clash or free, "constructor_raises_only_for_singleton_clash", lambda: f"constructing {kind} observer raised {short_exc(e)} with subscribers {self.subscribed}")
                self.check_subscriber_list(w, "after rejected singleton construction")
                ctx.probe("singleton_clash_rejected")
                return "raised"
            ctx.check(not singleton_clash, "singleton_not_subscribed_twice", lambda: f"a second {kind} observer was constructed while {self.subscribed_of(kind)} is subscribed")
            self.objs[tag], self.kind[tag] = o, kind
            if sub:
                self.subscribed.append(tag)
            if kind == "history":
                self.hist_expect[tag] = []
            return tag
        if action == "bad_feature_observer":
            # a refused request for an observer (unsupported feature type): nobody gets subscribed
            from job_shop_lib.dispatching.feature_observers import PositionInJobObserver, RemainingOperationsObserver, FeatureType

            cls, ft = [(PositionInJobObserver, FeatureType.JOBS), (RemainingOperationsObserver, FeatureType.OPERATIONS), (PositionInJobObserver, FeatureType.MACHINES)][a % 3]
            try:
                cls(d, feature_types=[ft])
            except Exception:  # noqa: BLE001
                self.check_subscriber_list(w, f"after the refused {cls.__name__}(feature_types=[{ft.value}])", allow_dependencies=True)
                ctx.probe("refused_feature_observer")
                return "raised"
            return "accepted"
        if action == "unsub":
            if not self.subscribed:
                return "skip"
            tag = self.subscribed[a % len(self.subscribed)]
            d.unsubscribe(self.objs[tag])
            self.subscribed.remove(tag)
            return tag
        if action == "resub":
            cands = [t for t in self.objs if t not in self.subscribed and self.kind[t] not in ("uns", "feat") and not (self.kind[t] != "multi" and (self.subscribed_of(self.kind[t]) or any(self.isa(self.kind[t], self.kind[u]) for u in self.subscribed)))]
            if not cands:
                return "skip"
            tag = cands[a % len(cands)]
            d.subscribe(self.objs[tag])
            self.subscribed.append(tag)
            return tag
        if action == "cog":
            kind = ["single", "multi", "history"][a % 3]
            if kind == "history":
                from job_shop_lib.dispatching import HistoryObserver as cls
            else:
                cls = rc[kind]
            existing = self.subscribed_of(kind)
            mode = b % 3
            if mode == 0 or kind == "history":
                cond, want_tag, desc = (lambda o: True), (existing[0] if existing else None), "any"
            elif mode == 1 and existing:
                pick = existing[(b // 3) % len(existing)]
                cond, want_tag, desc = (lambda o, pick=pick: getattr(o, "tag", None) == pick), pick, f"tag=={pick}"
            else:
                cond, want_tag, desc = (lambda o: False), None, "never"
            tag = self.new_tag()
            kw = {} if kind == "history" else {"tag": tag, "sink": self.sink, "peek": peek}
            must_raise = want_tag is None and kind != "multi" and bool(existing)
            try:
                got = d.create_or_get_observer(cls, condition=cond, **kw)
            except Exception as e:  # noqa: BLE001
                ctx.check(must_raise, "create_or_get_returns_matching", lambda: f"create_or_get_observer({kind}, {desc}) raised {short_exc(e)} with subscribers {self.subscribed}")
                self.check_subscriber_list(w, "after create_or_get raised")
                return "raised"
            ctx.check(not must_raise, "singleton_not_subscribed_twice", lambda: f"create_or_get_observer({kind}, {desc}) created a second singleton next to {existing}")
            if want_tag is not None:
                ctx.check(got is self.objs[want_tag], "create_or_get_returns_matching",
                          lambda: f"create_or_get_observer({kind}, {desc}) returned {getattr(got, 'tag', got)}, expected the subscribed {want_tag}")
                ctx.probe("create_or_get_returned_existing")
            else:
                ctx.check(all(got is not o for o in self.objs.values()), "create_or_get_returns_matching",
                          lambda: f"create_or_get_observer({kind}, {desc}) returned existing {getattr(got, 'tag', got)} although none matches")
                if kind == "history":
                    got.tag = tag
                    self.hist_expect[tag] = []
                self.objs[tag], self.kind[tag] = got, kind
                self.subscribed.append(tag)
                ctx.probe("create_or_get_created_new")
            return tag
        return super().extra(w, i, op)

    # ----------------------------------------------------------- reactions
    def on_invalid(self, w, kind, thunk, desc):
        out = super().on_invalid(w, kind, thunk, desc)
        self.expect_log(w, [], f"rejected request {desc}")
        return out

    def on_reset(self, w):
        w.do_reset()
        init = model_peek(w.model)
        self.expect_log(w, [("reset", t, init) for t in self.subscribed if self.kind[t] not in SILENT], "reset()")
        for t in self.subscribed:
            if self.kind[t] == "history":
                self.hist_expect[t] = []

    def after(self, w, i, kind, info):
        ctx = w.ctx
        if kind == "dispatch":
            o, mm, (s, e) = info
            post = model_peek(w.model)
            self.expect_log(w, [("update", t, o.operation_id, mm, s, post) for t in self.subscribed if self.kind[t] not in SILENT],
                            f"dispatch of op {o.operation_id} on m{mm}")
            for t in self.subscribed:
                if self.kind[t] == "history":
                    self.hist_expect[t].append((o.operation_id, mm, s))
            if len([t for t in self.subscribed if self.kind[t] not in SILENT]) >= 2:
                ctx.probe("dispatch_with_2plus_recorders")
        elif kind == "obs":
            self.expect_log(w, [], f"churn op {i}")
        self.check_subscriber_list(w, f"after op {i} ({kind})")
        for t, exp in self.hist_expect.items():
            got = [(so.operation.operation_id, so.machine_id, so.start_time) for so in self.objs[t].history]
            ctx.check(got == exp, "history_observer_equals_dispatch_sequence", lambda: f"after op {i} ({kind}): HistoryObserver {t} has {got}, dispatches while subscribed {exp}")


def execute(case, ctx):
    w = DWorld(case["cfg"], ctx)
    run_ops(w, case["ops"], H(w))


def nontrivial(case, ctx):
    return ctx.counts.get("dispatch", 0) >= 3 and ctx.counts.get("obs", 0) >= 2
