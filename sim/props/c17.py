"""C17 - residual graph hides only the decided and everything done."""

from ..dworld import DWorld, Hooks, run_ops, gen_dispatch_ops, BUILDERS, mark_manual
from ..instances import gen_instance, n_ops, n_machines
from ..model import graph_spec
from ..util import stream

PROP = "C17"
LEVEL = "exploration"
N = {"quick": 30000, "thorough": 600000}
RULE = ("seeded positive-duration instance (flexible, irregular, unused machine ids) x graph builder (4) x "
        "remove-machine/remove-job options x with/without a pre-existing IsCompletedObserver x filter none / "
        "dominated x dispatch history with rejected requests and resets; after every dispatch the removed-node "
        "mask and the graph are compared with the reference model's completed / scheduled sets; non-trivial: >= 3 "
        "dispatches; distinct = distinct (config, op list) hashes")
REAL = ["ResidualGraphUpdater", "remove_completed_operations", "JobShopGraph.remove_node", "IsCompletedObserver",
        "RemainingOperationsObserver", "UnscheduledOperationsObserver", "all four graph builders"]
STUB = []
ASSUMPTIONS = ["positive durations (statement's scope)", "source / sink / global nodes are unconstrained"]


def generate(seed, tier):
    rng = stream(seed, "c17")
    big = tier == "thorough" and rng.random() < 0.15
    spec = gen_instance(rng, sparse_ids=0.03, large=0.008, max_jobs=5 if big else 4, max_machines=5 if big else 4, max_ops=5 if big else 4, positive=True)
    names = ["dominated_operations"] if rng.random() < 0.5 else []
    obs = []
    pre = rng.random()
    if pre < 0.2:
        obs.append({"t": "is_completed", "ft": None})
    elif pre < 0.45:
        # a pre-existing observer that may or may not satisfy the updater's needs
        lv = ["operations", "machines", "jobs"]
        obs.append({"t": "is_completed", "ft": [x for x in lv if rng.random() < 0.5] or [rng.choice(lv)]})
    elif pre < 0.55:
        obs.append({"t": "remaining_operations", "ft": None if rng.random() < 0.5 else [rng.choice(["machines", "jobs"])]})
    default = rng.random() < 0.5
    obs.append({"t": "residual", "builder": rng.choice(BUILDERS), "rm": True if default else rng.random() < 0.5,
                "rj": True if default else rng.random() < 0.5})
    mark_manual(stream(seed, "c17-manual"), obs, 0.08)
    rb = stream(seed, "c17-blocks").random()
    if rb < 0.08:
        obs[-1]["builder"] = "blocks_reversed"
    elif rb < 0.12:
        obs[-1]["builder"] = "blocks_jobs_only"
    ru = stream(seed, "c17-userfilter")
    if ru.random() < 0.12:
        # a user-defined filter, which may hide the operation that could start first (current time moves differently)
        names = [ru.choice(["user_keep_last", "user_longest_only"])] + (["dominated_operations"] if ru.random() < 0.3 else [])
    if default and stream(seed, "c17-kw").random() < 0.5:
        obs[-1]["kw_default"] = True
    faulty = rng.random() < 0.5
    ops = gen_dispatch_ops(rng, n_ops(spec), p_query=0.05, p_invalid=0.08 if faulty else 0.0, p_reset=0.04 if faulty else 0.0,
                           episodes=2 if rng.random() < 0.2 else 1)
    cfg = {"instance": spec, "filter": names, "filter_style": "callable", "observers": obs, "observers_fixed": True}
    r = rng.random()
    if r < 0.25:
        # a second, independent dispatcher + updater is alive in the same process and advanced alternately
        spec2 = gen_instance(rng, sparse_ids=0.03, large=0.008, max_jobs=4, max_machines=4, max_ops=4, positive=True)
        cfg["second"] = {"instance": spec2, "filter": [], "filter_style": "callable", "observers_fixed": True,
                         "observers": [{"t": "residual", "builder": rng.choice(BUILDERS), "rm": True, "rj": True}]}
        cfg["second_seed"] = rng.randrange(1 << 30)
    elif r < 0.4:
        # the updater is attached to a dispatcher that has already dispatched a few operations
        cfg["late_after"] = rng.randint(1, 3)
    return {"prop": PROP, "cfg": cfg, "ops": ops}


class H(Hooks):
    def __init__(self, w):
        self.upd = w.observers[-1][1]
        self.ospec = w.observers[-1][0]
        if self.ospec["builder"].startswith("blocks_"):
            # a hand-composed graph: what each node stands for is read from the node entities the user created
            self.node_types = [(n.node_type.name, n.operation.operation_id if n.node_type.name == "OPERATION" else (n.machine_id if n.node_type.name == "MACHINE" else (n.job_id if n.node_type.name == "JOB" else None)))
                               for n in self.upd.job_shop_graph.nodes]
        else:
            self.node_types, _ = graph_spec(w.jobs, self.ospec["builder"])
        self.prev_removed = None
        used = {m for job in w.jobs for ms, _ in job for m in ms}
        self.all_machines_used = len(used) == w.model.nm

    def after(self, w, i, kind, info):
        ctx, m = w.ctx, w.model
        g = self.upd.job_shop_graph
        removed = [bool(x) for x in g.removed_nodes]
        if len(removed) != len(self.node_types):
            ctx.fail("removed_mask_matches_nodes", f"removed_nodes has {len(removed)} entries, graph was built with {len(self.node_types)} nodes")
            return
        if kind == "reset":
            self.prev_removed = None
            ctx.check(not any(removed), "reset_restores_graph", lambda: f"after reset removed_nodes = {removed}")
        now = m.now()
        completed = {m.opid[o] for o in m.completed(now)}
        scheduled = {m.opid[o] for o in m.scheduled()}
        rem_ops = {t[1] if self.ospec["builder"].startswith("blocks_") else n for n, t in enumerate(self.node_types) if t[0] == "OPERATION" and removed[n]}
        when = f"after op {i} ({kind}), now={now}"
        ctx.check(completed <= rem_ops, "completed_operations_removed", lambda: f"{when}: completed operations {sorted(completed - rem_ops)} still in the graph")
        ctx.check(rem_ops <= scheduled, "unscheduled_never_removed", lambda: f"{when}: unscheduled operations {sorted(rem_ops - scheduled)} were removed")
        uns = m.unscheduled()
        for n, t in enumerate(self.node_types):
            if t[0] == "MACHINE" and removed[n]:
                left = [o for o in uns if t[1] in m.machines(*o)]
                ctx.check(not left, "machine_node_removed_early", lambda: f"{when}: machine {t[1]} node removed while {left} are unscheduled")
            if t[0] == "JOB" and removed[n]:
                left = [o for o in uns if o[0] == t[1]]
                ctx.check(not left, "job_node_removed_early", lambda: f"{when}: job {t[1]} node removed while {left} are unscheduled")
        if self.prev_removed is not None:
            back = [n for n in range(len(removed)) if self.prev_removed[n] and not removed[n]]
            ctx.check(not back, "removals_permanent", lambda: f"{when}: nodes {back} came back")
        present = set(g.graph.nodes())
        mism = [n for n in range(len(removed)) if removed[n] == (n in present)]
        ctx.check(not mism, "mask_equals_graph", lambda: f"{when}: removed_nodes disagrees with graph membership for nodes {mism}")
        bad = [(u, v) for u, v in g.graph.edges() if removed[u] or removed[v]]
        ctx.check(not bad, "no_edge_touches_removed", lambda: f"{when}: edges {bad[:4]} touch removed nodes")
        if m.is_complete() and self.ospec["rm"] and self.ospec["rj"] and self.all_machines_used:
            ctx.check(all(removed), "complete_removes_everything", lambda: f"schedule complete but nodes {[n for n in range(len(removed)) if not removed[n]]} remain ({[self.node_types[n] for n in range(len(removed)) if not removed[n]]})")
            ctx.probe("complete_all_removed")
        if rem_ops and rem_ops != scheduled:
            ctx.probe("scheduled_but_not_completed_kept")
        self.prev_removed = removed


class Both(Hooks):
    """Drives the main world's hooks and, after every op of the main world, one
    seeded dispatch (sometimes a reset) of the second world with its own hooks."""

    def __init__(self, h1, w2, h2, seed):
        import random

        self.h1, self.w2, self.h2 = h1, w2, h2
        self.rng = random.Random(seed)
        self.k = 0

    def after(self, w, i, kind, info):
        self.h1.after(w, i, kind, info)
        w2 = self.w2
        if w2.model.is_complete():
            if self.rng.random() < 0.3:
                w2.do_reset()
                self.h2.after(w2, i, "reset", None)
            return
        if self.rng.random() < 0.05:
            w2.do_reset()
            self.h2.after(w2, i, "reset", None)
            return
        r = w2.resolve_dispatch(self.rng.randrange(64), self.rng.randrange(64), self.rng.randrange(2))
        if r is None:
            return
        w2.do_dispatch(*r)
        self.h2.after(w2, i, "dispatch", None)
        w.ctx.probe("second_live_updater_stepped")


def execute(case, ctx):
    cfg = case["cfg"]
    late = cfg.get("late_after")
    if late:
        # dispatch a few operations first, then attach the updater (and whatever it creates)
        w = DWorld({**cfg, "observers": []}, ctx)
        done = 0
        for op in [o for o in case["ops"] if o[0] == "dispatch"][:late]:
            r = w.resolve_dispatch(op[1], op[2], 0)
            if r is None:
                break
            w.do_dispatch(*r)
            done += 1
        for ospec in cfg["observers"]:
            if w.add_observer(ospec, owner="C17") is None:
                return
        ctx.probe("updater_attached_mid_history")
        h = H(w)
        # nothing is promised for the rest of the episode in which the updater was attached (the observers it
        # relies on are only specified when subscribed from the start); from the next reset on the world must
        # be indistinguishable from a fresh one, so the invariants are demanded from the first reset on
        h.prev_removed = None
        armed = False
        orig_after = h.after

        def after(wx, i, kind, info):
            nonlocal armed
            if kind == "reset":
                armed = True
            if armed:
                orig_after(wx, i, kind, info)

        h.after = after
        run_ops(w, list(case["ops"]) + [["reset"]] + [o for o in case["ops"] if o[0] == "dispatch"], h)
        return
    w = DWorld(cfg, ctx)
    if len(w.observers) != len(cfg["observers"]):
        return
    h = H(w)
    h.after(w, -1, "init", None)
    if cfg.get("second"):
        w2 = DWorld(cfg["second"], ctx)
        if len(w2.observers) != 1:
            return
        h2 = H(w2)
        run_ops(w, case["ops"], Both(h, w2, h2, cfg["second_seed"]))
        return
    run_ops(w, case["ops"], h)


def nontrivial(case, ctx):
    return ctx.counts.get("dispatch", 0) >= 3
