"""C03 - CP-SAT solver returns feasible, truly optimal schedules (the CP-SAT
search itself is real native code, pinned to one worker and a fixed seed)."""

from ..instances import gen_instance, n_ops, build, as_tuple, shrink_candidates
from ..model import check_feasible, opt_makespan, lower_bounds
from ..seams import SimClock, patched, cpsat_factory
from ..util import stream, h64
from ..core import short_exc

PROP = "C03"
LEVEL = "exploration"
N = {"quick": 6000, "thorough": 120000}
RULE = ("seeded history of 2-5 solve() / __call__ calls on ONE ORToolsSolver object over different tiny non-flexible "
        "instances (<= 9 operations, zero durations, recirculation, irregular jobs, unused machine ids), with "
        "max_time_in_seconds changed between calls (None / generous / 1e-9) and a deterministic CP-SAT time budget "
        "injected through the CpSolver constructor seam; each result checked by an independent feasibility checker, "
        "against an exact branch-and-bound optimum, all built-in dispatching rules, lower bounds and a fresh solver; "
        "evaluations = runs (histories); non-trivial: >= 2 solves returning a schedule; distinct = distinct histories")
REAL = ["ORToolsSolver (model construction, metadata, schedule rebuild, reuse)", "OR-Tools CP-SAT (native, 1 worker, fixed seed)", "Schedule validation",
        "DispatchingRuleSolver (upper bounds)"]
STUB = ["cp_model.CpSolver -> pinned subclass (num_workers=1, random_seed, optional max_deterministic_time; records raw status)",
        "time module inside _ortools_solver -> SimClock"]
ASSUMPTIONS = ["the search inside CP-SAT is not simulated", "semi-active schedules contain an optimal one (reference optimum by exhaustive memoised search over dispatch orders)"]
STATE_MEASURE = "distinct (instance hash, limit configuration, position in the solver's history) tuples"

BENCH = ["ft06", "la01", "la02", "la03", "la04", "la05"]
RULES = ["shortest_processing_time", "first_come_first_served", "most_work_remaining", "most_operations_remaining"]


def gen_small(rng):
    while True:
        spec = gen_instance(rng, huge=0.06, huge64=False, max_jobs=4, max_machines=3, max_ops=4, flexible=False)
        if n_ops(spec) <= 9:
            return spec


def generate(seed, tier):
    rng = stream(seed, "c03")
    ops = []
    faulty = rng.random() < 0.4
    for _ in range(rng.randint(2, 5)):
        lim = None
        det = None
        spec = gen_small(rng)
        if faulty:
            r = rng.random()
            if r < 0.25:
                lim = 1e-9
            elif r < 0.4:
                det = rng.choice([1e-7, 1e-5, 1e-4])
            elif r < 0.55:
                # a budget that often stops the search after a first solution, before optimality is proven:
                # needs a somewhat larger instance (the exact optimum is then replaced by bounds)
                det = rng.choice([1e-5, 2e-5, 3e-5])
                spec = gen_instance(rng, max_jobs=5, max_machines=4, max_ops=5, flexible=False, positive=True, degenerate=False, min_jobs=4, recycled=0)
            elif r < 0.7:
                lim = 30.0
        ops.append(["solve", spec, "call" if rng.random() < 0.5 else "solve", lim, det])
    # deliberately large-then-small so that leftovers would show
    if rng.random() < 0.5:
        ops.sort(key=lambda o: -n_ops(o[1]))
    if tier == "thorough" and rng.random() < 0.004:
        # a recorded benchmark instance somewhere in the history (bounds from benchmark_instances.json)
        ops.insert(rng.randint(0, len(ops)), ["solve", {"benchmark": rng.choice(BENCH)}, "call" if rng.random() < 0.5 else "solve", None, None])
    return {"prop": PROP, "cfg": {"solver_seed": rng.randrange(1 << 30), "clock_seed": rng.randrange(1 << 30)}, "ops": ops}


def run_solver(solver, inst, form):
    return solver(inst) if form == "call" else solver.solve(inst)


def execute(case, ctx):
    from ortools.sat.python import cp_model
    import job_shop_lib.constraint_programming._ortools_solver as osm
    from job_shop_lib.constraint_programming import ORToolsSolver
    from job_shop_lib.exceptions import NoSolutionFoundError
    from job_shop_lib.dispatching.rules import DispatchingRuleSolver

    cfg = case["cfg"]
    clock = SimClock(cfg["clock_seed"], ctx)
    solver = ORToolsSolver()
    for i, (_, spec, form, lim, det) in enumerate(case["ops"]):
        ctx.step = i
        bench = spec.get("benchmark") if isinstance(spec, dict) else None
        if bench:
            from job_shop_lib.benchmarking import load_benchmark_instance

            inst = load_benchmark_instance(bench)
            jobs = tuple(tuple((tuple(op.machines), op.duration) for op in job) for job in inst.jobs)
            n = inst.num_operations
            spec = {"jobs": [[[list(ms), d] for ms, d in job] for job in jobs], "name": bench}
            bench_meta = dict(inst.metadata)
            ctx.probe("benchmark_instance_solved")
        else:
            jobs = as_tuple(spec)
            n = n_ops(spec)
            inst = build(spec)
        statuses = []
        limited = lim is not None and lim < 1 or det is not None
        if lim is not None and lim < 1:
            ctx.fault("time_limit_tiny")
        if det is not None:
            ctx.fault("solver_time_budget")
        solver.max_time_in_seconds = lim
        ctx.states.add(h64((h64(spec["jobs"]), lim, det, i)))
        bench_spec = spec
        with patched(cp_model, "CpSolver", cpsat_factory(cfg["solver_seed"], det, statuses)), patched(osm, "time", clock):
            try:
                sched = run_solver(solver, inst, form)
                err = None
            except Exception as e:  # noqa: BLE001
                sched, err = None, e
            # a fresh solver on the same instance under the same limits
            fresh = ORToolsSolver(max_time_in_seconds=lim)
            fstat = []
            with patched(cp_model, "CpSolver", cpsat_factory(cfg["solver_seed"], det, fstat)):
                try:
                    fs = run_solver(fresh, build(spec), form)
                    ferr = None
                except Exception as e:  # noqa: BLE001
                    fs, ferr = None, e
        ctx.count("solve")
        raw = statuses[-1] if statuses else None
        ctx.event(i, "solve", n, form, lim, det, raw, type(err).__name__ if err else sched.metadata.get("status"))
        what = f"solve #{i + 1} ({form}, max_time={lim}, det_budget={det}) on {bench or spec['jobs']}"
        if err is not None:
            if isinstance(err, NoSolutionFoundError):
                ctx.check(limited, "no_solution_only_under_time_limit", lambda: f"{what}: NoSolutionFoundError although no limit was in force (raw CP-SAT status {raw})")
                ctx.check(raw == int(cp_model.UNKNOWN), "no_solution_only_under_time_limit", lambda: f"{what}: NoSolutionFoundError with raw CP-SAT status {raw} (not UNKNOWN)")
                ctx.probe("solver_budget_expired")
            else:
                ctx.fail("solve_raised", f"{what}: raised {short_exc(err)} (raw CP-SAT status {raw})", exc=type(err).__name__)
            if ferr is None and type(err) is not type(ferr):
                ctx.fail("history_independent", f"{what}: reused solver raised {short_exc(err)} but a fresh solver returned makespan {fs.makespan()}")
            continue
        ctx.count("solved")
        lists = [[(so.operation.job_id, so.operation.position_in_job, so.start_time, so.machine_id) for so in ml] for ml in sched.schedule]
        errs = check_feasible(jobs, lists)
        ctx.check(not errs, "schedule_feasible", lambda: f"{what}: returned schedule infeasible: {errs[:3]}")
        ctx.check(sched.is_complete() and sum(len(ml) for ml in lists) == n, "schedule_complete", lambda: f"{what}: schedule has {sum(len(ml) for ml in lists)} of {n} operations")
        md = sched.metadata
        mk = max((s + jobs[j][p][1] for ml in lists for (j, p, s, _) in ml), default=0)
        ctx.check(md.get("makespan") == sched.makespan() == mk, "reported_makespan_is_makespan", lambda: f"{what}: metadata makespan {md.get('makespan')}, schedule.makespan() {sched.makespan()}, max end {mk}")
        ctx.check(md.get("status") in ("optimal", "feasible"), "metadata_fields", lambda: f"{what}: status {md.get('status')!r}", field="status")
        ctx.check(md.get("solved_by") == "ORToolsSolver", "metadata_fields", lambda: f"{what}: solved_by {md.get('solved_by')!r}", field="solved_by")
        ctx.check(isinstance(md.get("elapsed_time"), float) and md["elapsed_time"] >= 0, "metadata_fields", lambda: f"{what}: elapsed_time {md.get('elapsed_time')!r}", field="elapsed_time")
        ctx.check((md.get("status") == "optimal") == (raw == int(cp_model.OPTIMAL)), "metadata_fields", lambda: f"{what}: status {md.get('status')!r} but raw CP-SAT status {raw}", field="status_vs_raw")
        exact = bench or n <= 9
        opt = bench_meta["optimum"] if bench else (opt_makespan(jobs) if exact else lower_bounds(jobs))
        lb = max(lower_bounds(jobs), bench_meta["lower_bound"]) if bench else lower_bounds(jobs)
        if bench:
            ctx.check(bench_meta["lower_bound"] <= mk, "never_below_lower_bound", lambda: f"{what}: makespan {mk} below the recorded lower bound {bench_meta['lower_bound']} of {bench}")
            if md.get("status") == "optimal":
                ctx.check(mk <= bench_meta["upper_bound"], "optimal_means_optimal", lambda: f"{what}: optimal makespan {mk} above the recorded upper bound {bench_meta['upper_bound']} of {bench}")
        ctx.check(mk >= opt and mk >= lb, "never_below_lower_bound", lambda: f"{what}: makespan {mk} below optimum {opt} / lower bound {lb}")
        if md.get("status") == "optimal" or not limited:
            if exact:
                ctx.check(mk == opt, "optimal_means_optimal", lambda: f"{what}: status {md.get('status')} with makespan {mk}, independent optimum {opt}")
            if not limited:
                ctx.check(md.get("status") == "optimal", "optimal_means_optimal", lambda: f"{what}: no limit in force but status {md.get('status')!r}")
            for rname in RULES:
                rs = DispatchingRuleSolver(dispatching_rule=rname).solve(build(spec)).makespan()
                ctx.check(mk <= rs, "never_above_dispatching_rule", lambda: f"{what}: optimal makespan {mk} above {rname} result {rs}")
        else:
            ctx.probe("feasible_not_proven_optimal")
        # history independence
        if ferr is not None:
            ctx.fail("history_independent", f"{what}: reused solver returned makespan {mk} but a fresh solver raised {short_exc(ferr)}")
        else:
            ctx.check((fs.metadata.get("status"), fs.makespan()) == (md.get("status"), mk), "history_independent",
                      lambda: f"{what}: reused solver gives {(md.get('status'), mk)}, fresh solver {(fs.metadata.get('status'), fs.makespan())}")
        nv = len(solver.model.Proto().variables)
        fv = len(fresh.model.Proto().variables) if ferr is None else None
        ctx.check(fv is None or nv == fv, "model_describes_last_instance_only",
                  lambda: f"{what}: the reused solver's public model has {nv} variables, a fresh solver's model of the same {n}-operation instance has {fv}")
        if any(d == 0 for job in jobs for _, d in job):
            ctx.probe("zero_duration_instance_solved")
        ctx.sim_time += mk


def nontrivial(case, ctx):
    return ctx.counts.get("solved", 0) >= 2


def simplify(case):
    for i, op in enumerate(case["ops"]):
        if "benchmark" in op[1]:
            continue
        for spec in shrink_candidates(op[1]):
            yield {**case, "ops": case["ops"][:i] + [[op[0], spec] + op[2:]] + case["ops"][i + 1:]}
        if op[3] is not None or op[4] is not None:
            yield {**case, "ops": case["ops"][:i] + [[op[0], op[1], op[2], None, None]] + case["ops"][i + 1:]}
