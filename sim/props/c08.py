"""C08 - pruning dominated operations never loses the optimum.

Deciding step: seeded guided search over filtered histories of the REAL
dispatcher looks for a witness with makespan = OPT.  Only if no witness is
found is the (tiny) filtered tree of that one instance exhausted, solely to
confirm or dismiss the candidate before anything is reported."""

import random

from ..instances import gen_instance, n_ops, build, as_tuple
from ..model import opt_makespan
from ..util import stream, Foreign, h64

PROP = "C08"
INF = float("inf")
LEVEL = "exploration"
N = {"quick": 100000, "thorough": 2000000}
RULE = ("seeded tiny positive-duration instance (<= 8 operations, quick; <= 10 thorough; flexible or not, recirculation, "
        "irregular); OPT by exact memoised search over ALL dispatch orders and machine choices; then up to 8 seeded "
        "rollouts of the real Dispatcher with the real filter_dominated_operations, choosing only among "
        "available_operations(), guided by an optimal unfiltered order; witness makespan = OPT => pass; otherwise the "
        "filtered tree of that instance is exhausted (memoised) to confirm; non-trivial: >= 2 jobs and >= 4 operations "
        "and the filter removed something on the way; distinct = distinct instances")
REAL = ["Dispatcher", "filter_dominated_operations"]
STUB = []
ASSUMPTIONS = ["OPT of the reference search is exact (semi-active schedules contain an optimum)",
               "a violation is only reported after bounded exhaustive confirmation on the one tiny instance"]
STATE_MEASURE = "distinct (instance hash, tracking vectors) states visited by rollouts and confirmations"


def generate(seed, tier):
    rng = stream(seed, "c08")
    cap = 10 if tier == "thorough" and rng.random() < 0.3 else 8
    while True:
        spec = gen_instance(rng, huge=0.05, max_jobs=4 if cap == 10 else 3, max_machines=3, max_ops=4, positive=True, degenerate=False,
                            min_jobs=2 if rng.random() < 0.9 else 1)
        if n_ops(spec) <= cap:
            break
    return {"prop": PROP, "cfg": {"instance": spec, "search_seed": rng.randrange(1 << 30), "rollouts": 8}, "ops": []}


def execute(case, ctx):
    from job_shop_lib.dispatching import Dispatcher, filter_dominated_operations

    cfg = case["cfg"]
    spec = cfg["instance"]
    jobs = as_tuple(spec)
    inst = build(spec)
    n = n_ops(spec)
    opt, order = opt_makespan(jobs, want_history=True)
    d = Dispatcher(inst, ready_operations_filter=filter_dominated_operations)
    rng = random.Random(cfg["search_seed"])
    ih = h64(spec["jobs"])
    removed_something = False
    best = None
    ctx.step = 0

    def mark():
        ctx.states.add(h64((ih, tuple(d.job_next_operation_index), tuple(d.machine_next_available_time), tuple(d.job_next_available_time))))

    crashes = []  # exceptions met on filtered histories: such a history cannot be completed, it is no witness

    def crashed(e, where):
        from ..core import short_exc

        if isinstance(e, (Foreign, KeyboardInterrupt, SystemExit, MemoryError)) or type(e).__name__ in ("Violation", "TimeoutError"):
            raise e
        crashes.append(f"{where} raised {short_exc(e)}")
        ctx.probe("filtered_history_crashed")

    # half of the searches start with a purely random filtered episode on the same dispatcher (a tree search or a
    # learning loop does many before it finds the best one); it counts like any other rollout
    first = -(cfg["search_seed"] % 4)  # 0..3 random episodes first
    for k in range(first, cfg["rollouts"]):
        remaining = list(order)
        p_rand = 1.0 if k < 0 else (0.0 if k == 0 else 0.3)
        dead_end = False
        try:
            d.reset()
        except Exception as e:  # noqa: BLE001
            crashed(e, "reset()")
            dead_end = True
        abandon_at = rng.randrange(n) if k < 0 and rng.random() < 0.5 else None  # some of the random episodes are abandoned midway
        for step_no in range(n if not dead_end else 0):
            try:
                av = d.available_operations()
            except Exception as e:  # noqa: BLE001
                crashed(e, "available_operations()")
                dead_end = True
                break
            if step_no == abandon_at:
                dead_end = True  # the user looked at what is available and gave the episode up: the next one starts with reset()
                ctx.probe("random_episode_abandoned")
                break
            if not av:
                # nothing survives the filter although operations are ready: this filtered history cannot be
                # completed; it simply is no witness (C07 owns non-emptiness as such)
                dead_end = True
                ctx.probe("filtered_history_dead_end")
                break
            if len(av) < len(d.raw_ready_operations()):
                removed_something = True
            choice = None
            if rng.random() >= p_rand:
                for idx, (j, m) in enumerate(remaining):
                    cand = [o for o in av if o.job_id == j]
                    if cand and m in cand[0].machines:
                        choice = (cand[0], m)
                        del remaining[idx]
                        break
            if choice is None:
                o = rng.choice(av)
                m = rng.choice(o.machines)
                choice = (o, m)
                for idx, (j, mm) in enumerate(remaining):
                    if j == o.job_id:
                        del remaining[idx]
                        break
            try:
                if len(choice[0].machines) == 1 and (k + len(remaining)) % 3 == 0:
                    d.dispatch(choice[0])  # the machine of a single-machine operation may be left out
                else:
                    d.dispatch(*choice)
            except Exception as e:  # noqa: BLE001
                crashed(e, f"dispatch of the surviving operation ({choice[0].job_id},{choice[0].position_in_job}) on machine {choice[1]}")
                dead_end = True
                break
            mark()
        ctx.count("rollout")
        if dead_end:
            continue
        mk = d.schedule.makespan()
        if mk < opt:
            raise Foreign("C01", f"a dispatcher history reached makespan {mk} below the exact optimum {opt}")
        best = mk if best is None else min(best, mk)
        if mk == opt and k >= 0:
            ctx.probe("witness_by_seeded_search" if k else "witness_by_first_guided_rollout")
            break
    ctx.event(0, "search", n, opt, best if best is not None else "dead-end")
    ctx.removed = removed_something
    ctx.sim_time = opt
    if removed_something:
        ctx.probe("filter_removed_something")
    if best == opt:
        return
    # ---- candidate: confirm by exhausting the filtered tree of this instance
    ctx.probe("candidate_needed_exhaustive_confirmation")
    ops_by = {(o.job_id, o.position_in_job): o for job in inst.jobs for o in job}
    memo = {}

    def state_key():
        return (tuple(d.job_next_operation_index), tuple(d.machine_next_available_time), tuple(d.job_next_available_time))

    def rebuild(prefix):
        d.reset()
        for (j, p, m) in prefix:
            d.dispatch(ops_by[(j, p)], m)

    def dfs(prefix):
        try:
            rebuild(prefix)
        except Exception as e:  # noqa: BLE001
            crashed(e, f"re-dispatching the filtered history {prefix}")
            return INF
        mark()
        if d.schedule.is_complete():
            return d.schedule.makespan()
        key = state_key()
        if key in memo:
            return memo[key]
        try:
            choices = [(o.job_id, o.position_in_job, m) for o in d.available_operations() for m in o.machines]
        except Exception as e:  # noqa: BLE001
            crashed(e, f"available_operations() after {prefix}")
            choices = []
        if not choices:
            memo[key] = INF  # dead end: no complete filtered history through this state
            return INF
        res = None
        for c in choices:
            v = dfs(prefix + [c])
            res = v if res is None else min(res, v)
            if res <= opt:
                break
        memo[key] = res
        return res

    filtered_best = dfs([])
    if filtered_best == INF:
        filtered_best_txt = "no filtered history can even be completed (" + (f"e.g. {crashes[0]}" if crashes else "the filter returns an empty list on every path") + ")"
    else:
        filtered_best_txt = f"no history that only dispatches operations kept by filter_dominated_operations does better than {filtered_best}"
    ctx.count("exhaustive_confirmation")
    if filtered_best < opt:
        raise Foreign("C01", f"filtered tree reaches {filtered_best} below the exact optimum {opt}")
    if filtered_best == opt:
        ctx.probe("candidate_dismissed")
        return
    ctx.fail("filtered_optimum_equals_optimum",
             f"instance {spec['jobs']}: OPT = {opt} (e.g. by (job, machine) order {list(order)}), but {filtered_best_txt} "
             f"(filtered tree exhausted, {len(memo)} states)")


def nontrivial(case, ctx):
    spec = case["cfg"]["instance"]
    return len(spec["jobs"]) >= 2 and n_ops(spec) >= 4 and getattr(ctx, "removed", False)
