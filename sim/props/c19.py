"""C19 - generated instances respect the requested shape and seed."""

import math
import random

from ..util import stream, h64
from ..core import short_exc

PROP = "C19"
LEVEL = "exploration"
N = {"quick": 60000, "thorough": 1200000}
RULE = ("1-3 GeneralInstanceGenerators with seeded parameters (int or range for jobs / machines, duration range, both "
        "flags, machines_per_operation int or range, seed or None, iteration limit, suffix) driven by an op list that "
        "interleaves generate() / next() / list() of the generators with each other, with a random-rule solver and with "
        "global-RNG perturbation (draws, re-seeding); a same-(parameters, seed) twin is built later in the same world "
        "and/or interleaved step by step, and every seeded generator's sequence is compared with its solo reference "
        "run; non-trivial: >= 3 instances generated and >= 1 interference op; distinct = distinct (config, op list)")
REAL = ["GeneralInstanceGenerator", "InstanceGenerator (iteration protocol, naming, seeding)", "global random module (shared on purpose)",
        "DispatchingRuleSolver with the random rule (RNG consumer)"]
STUB = []
ASSUMPTIONS = ["'drawn from all M machines' is checked only when a uniform choice would miss a machine id with probability < 1e-9",
               "allow_less_jobs_than_machines=False with a draw of fewer jobs than the machine minimum: only jobs >= machines and M <= max are demanded (the range minimum cannot hold too)"]
STATE_MEASURE = "distinct (generator parameters, index in its sequence) pairs"


def gen_params(rng):
    jlo = rng.randint(1, 5)
    jhi = jlo + rng.randint(0, 3)
    allow_less = rng.random() < 0.55
    # with the flag off, 25 % of the parameter sets have a machine minimum above the job minimum: draws with fewer
    # jobs than the machine minimum cannot satisfy both clauses; there only the flag's promise (jobs >= machines) is checked
    mlo = rng.randint(1, jlo if (not allow_less and rng.random() < 0.75) else 5)
    mhi = mlo + rng.randint(0, 4)
    dlo = rng.randint(0, 5)
    dhi = dlo + rng.randint(0, 9)
    r = rng.random()
    mcap = mlo if allow_less else min(mlo, jlo)
    if r < 0.55:
        mpo = 1
    elif r < 0.75:
        mpo = rng.randint(1, mcap)
    else:
        a = rng.randint(1, mcap)
        mpo = [a, rng.randint(a, mcap)]
    return {
        "num_jobs": jlo if (jlo == jhi and rng.random() < 0.5) else [jlo, jhi],
        "num_machines": mlo if (mlo == mhi and rng.random() < 0.5) else [mlo, mhi],
        "duration_range": [dlo, dhi],
        "allow_less_jobs_than_machines": allow_less,
        "allow_recirculation": rng.random() < 0.4,
        "machines_per_operation": mpo,
        "name_suffix": rng.choice(["g", "classic_generated_instance", "x_y"]),
        "seed": (rng.choice([0, 0, 1, 42, 2 ** 31]) if rng.random() < 0.2 else rng.randrange(1 << 16)) if rng.random() < 0.7 else None,
        "iteration_limit": rng.randint(0, 5) if rng.random() < 0.5 else None,
        "omit_defaults": rng.random() < 0.5,  # arguments equal to their documented default are left out
    }


def generate(seed, tier):
    rng = stream(seed, "c19")
    gens = [gen_params(rng) for _ in range(rng.randint(1, 3))]
    twin = None
    seeded = [i for i, g in enumerate(gens) if g["seed"] is not None]
    if seeded and rng.random() < 0.7:
        twin = {"of": rng.choice(seeded), "placement": rng.choice(["later", "interleaved"])}
    ops = []
    n = rng.randint(3, 12)
    interfere = rng.random() < 0.75
    for _ in range(n):
        r = rng.random()
        if interfere and r < 0.15:
            ops.append(["rng_perturb", rng.randint(1, 5), rng.randrange(1 << 30) if rng.random() < 0.4 else None])
        elif interfere and r < 0.22:
            ops.append(["random_rule_solve", rng.randrange(1 << 30)])
        elif r < 0.27:
            ops.append(["next", rng.randrange(8)])
        elif r < 0.3:
            ops.append(["gen_explicit", rng.randrange(8), rng.randrange(3), rng.randint(1, 6), rng.randint(1, 6)])
        elif r < 0.36:
            ops.append(["list", rng.randrange(8)])
        else:
            ops.append(["gen", rng.randrange(8)])
    return {"prop": PROP, "cfg": {"generators": gens, "twin": twin}, "ops": ops}


def make(g):
    from job_shop_lib.generation import GeneralInstanceGenerator

    t = lambda v: tuple(v) if isinstance(v, list) else v  # noqa: E731
    kw = dict(
        num_jobs=t(g["num_jobs"]), num_machines=t(g["num_machines"]), duration_range=tuple(g["duration_range"]),
        allow_less_jobs_than_machines=g["allow_less_jobs_than_machines"], allow_recirculation=g["allow_recirculation"],
        machines_per_operation=t(g["machines_per_operation"]), name_suffix=g["name_suffix"], seed=g["seed"],
        iteration_limit=g["iteration_limit"],
    )
    if g.get("omit_defaults"):
        documented = dict(num_jobs=(10, 20), num_machines=(5, 10), duration_range=(1, 99), allow_less_jobs_than_machines=True, allow_recirculation=False,
                          machines_per_operation=1, name_suffix="classic_generated_instance", seed=None, iteration_limit=None)
        kw = {k: v for k, v in kw.items() if not (type(v) is type(documented[k]) and v == documented[k])}
    return GeneralInstanceGenerator(**kw)


def rng_of(v):
    return (v, v) if isinstance(v, int) else (v[0], v[1])


def plain(inst):
    return [[(tuple(op.machines), op.duration) for op in job] for job in inst.jobs]


def check_instance(ctx, g, inst, names_seen, usage, gi):
    jlo, jhi = rng_of(g["num_jobs"])
    mlo, mhi = rng_of(g["num_machines"])
    dlo, dhi = g["duration_range"]
    klo, khi = rng_of(g["machines_per_operation"])
    jobs = inst.jobs
    nj = len(jobs)
    what = f"generator {gi} {({k: v for k, v in g.items() if k not in ('name_suffix',)})} produced {plain(inst)}"
    ctx.check(jlo <= nj <= jhi, "job_count_in_range", lambda: f"{what}: {nj} jobs, requested {g['num_jobs']}")
    lens = {len(j) for j in jobs}
    ctx.check(len(lens) == 1, "jobs_have_M_operations", lambda: f"{what}: job lengths {sorted(lens)}")
    M = len(jobs[0])
    unsat = (not g["allow_less_jobs_than_machines"]) and nj < mlo
    if unsat:
        ctx.probe("draw_with_fewer_jobs_than_machine_minimum")
        ctx.check(M <= mhi, "machine_count_in_range", lambda: f"{what}: jobs have {M} operations, requested machines {g['num_machines']}")
    else:
        ctx.check(mlo <= M <= mhi, "machine_count_in_range", lambda: f"{what}: jobs have {M} operations, requested machines {g['num_machines']}")
    ids = [m for j in jobs for op in j for m in op.machines]
    ctx.check(all(0 <= m < M for m in ids), "machine_ids_below_M", lambda: f"{what}: machine ids {sorted(set(ids))} with M={M}")
    durs = [op.duration for j in jobs for op in j]
    ctx.check(all(dlo <= d <= dhi for d in durs), "durations_in_range", lambda: f"{what}: durations {sorted(set(durs))}, requested {g['duration_range']}")
    for j in jobs:
        for op in j:
            k = len(op.machines)
            ctx.check(klo <= k <= khi and len(set(op.machines)) == k, "machines_per_operation", lambda: f"{what}: operation machines {op.machines}, requested count {g['machines_per_operation']}")
    if not g["allow_recirculation"] and khi == 1:
        for j in jobs:
            ctx.check(sorted(op.machines[0] for op in j) == list(range(M)), "visits_each_machine_once", lambda: f"{what}: a job visits {[op.machines[0] for op in j]}, not a permutation of range({M})")
    if not g["allow_less_jobs_than_machines"]:
        ctx.check(nj >= M, "at_least_as_many_jobs_as_machines", lambda: f"{what}: {nj} jobs < {M} machines although fewer jobs than machines are disallowed")
        ctx.probe("less_jobs_flag_checked")
    ctx.check(inst.name not in names_seen, "names_never_reused", lambda: f"{what}: name {inst.name!r} reused")
    names_seen.add(inst.name)
    # "drawn from all M machines": collect usage per (M, k) for the statistical clause
    if khi > 1:
        for j in jobs:
            for op in j:
                k = len(op.machines)
                if k < M:
                    u = usage.setdefault((M, k), [0, set()])
                    u[0] += 1
                    u[1].update(op.machines)


def drawn_from_all(ctx, usage, gi, g):
    for (M, k), (count, seen) in usage.items():
        # P(some fixed machine never chosen in `count` uniform k-subsets of M) <= M * (1 - k/M)^count
        p_miss = M * (1 - k / M) ** count
        if p_miss < 1e-9:
            ctx.check(seen == set(range(M)), "machines_drawn_from_all_M", lambda: f"generator {gi} {g}: over {count} operations with {k} of {M} machines only ids {sorted(seen)} ever occur")
            ctx.probe("all_machines_clause_checked")


def solo_sequence(g, script):
    """Reference: the generator alone in a quiet world, same call script."""
    st = random.getstate()
    try:
        gen = make(g)
        out = []
        it = None
        for kind in script:
            if isinstance(kind, tuple):
                try:
                    gen.generate(**kind[1])
                except Exception:  # noqa: BLE001
                    pass
                continue
            if kind == "gen":
                out.append(plain(gen.generate()))
            elif kind == "next":
                it = iter(gen) if it is None else it
                try:
                    out.append(plain(next(it)))
                except StopIteration:
                    out.append("stop")
            elif kind == "list":
                out.append([plain(x) for x in gen] if g["iteration_limit"] is not None else "skipped")
                it = None
        return out
    finally:
        random.setstate(st)


def execute(case, ctx):
    from job_shop_lib.dispatching.rules import DispatchingRuleSolver
    from job_shop_lib import JobShopInstance, Operation

    cfg = case["cfg"]
    params = list(cfg["generators"])
    twin = cfg.get("twin")
    gens, scripts, seqs, names, usage, iters = [], [], [], [], [], []

    def add(g):
        try:
            gens.append(make(g))
        except Exception as e:  # noqa: BLE001
            ctx.fail("generator_constructor_raised", f"GeneralInstanceGenerator({g}) raised {short_exc(e)}")
            gens.append(None)
        scripts.append([])
        seqs.append([])
        names.append(set())
        usage.append({})
        iters.append(None)

    for g in params:
        add(g)
    twin_idx = None
    if twin and twin["placement"] == "interleaved":
        params.append(params[twin["of"]])
        add(params[-1])
        twin_idx = len(gens) - 1
        ctx.probe("interleaved_same_seed_generators")

    taken = {}  # generator index -> instances yielded since the current iteration started

    def act(gi, kind, explicit=None):
        g, gen = params[gi], gens[gi]
        if gen is None:
            return
        try:
            if kind == "gen_explicit":
                # generate() with explicit sizes: the shape promises that still apply must hold
                from job_shop_lib.exceptions import ValidationError

                which, ej, em = explicit
                kw = {"num_jobs": ej} if which == 0 else ({"num_machines": em} if which == 1 else {"num_jobs": ej, "num_machines": em})
                # skip requests that cannot be satisfied at all (more eligible machines per operation than machines)
                nj_low = kw.get("num_jobs", rng_of(g["num_jobs"])[0])
                m_low = kw["num_machines"] if "num_machines" in kw else (rng_of(g["num_machines"])[0] if g["allow_less_jobs_than_machines"] else min(rng_of(g["num_machines"])[0], nj_low))
                if rng_of(g["machines_per_operation"])[1] > m_low:
                    return
                try:
                    inst = gen.generate(**kw)
                except Exception as e:  # noqa: BLE001 - any exception type is a refusal
                    ctx.check(not g["allow_less_jobs_than_machines"], "generate_raised", lambda: f"generator {gi} {g}: generate({kw}) raised {short_exc(e)} although fewer jobs than machines are allowed")
                    ctx.probe("explicit_sizes_refused")
                else:
                    nj, M = len(inst.jobs), len(inst.jobs[0])
                    ctx.check(all(len(j) == M for j in inst.jobs) and (kw.get("num_jobs", nj) == nj) and (kw.get("num_machines", M) == M), "explicit_sizes_respected",
                              lambda: f"generator {gi}: generate({kw}) returned {nj} jobs x {M} operations")
                    if not g["allow_less_jobs_than_machines"]:
                        ctx.check(nj >= M, "at_least_as_many_jobs_as_machines", lambda: f"generator {gi} {g}: generate({kw}) returned {nj} jobs on {M} machines although fewer jobs than machines are disallowed")
                    ctx.check(inst.name not in names[gi], "names_never_reused", lambda: f"generator {gi}: name {inst.name!r} reused")
                    names[gi].add(inst.name)
                    ctx.count("generated")
                    ctx.probe("explicit_sizes_generated")
                scripts[gi].append(("gen_explicit", kw))
                return
            if kind == "gen":
                inst = gen.generate()
                check_instance(ctx, g, inst, names[gi], usage[gi], gi)
                seqs[gi].append(plain(inst))
                ctx.count("generated")
            elif kind == "next":
                if iters[gi] is None:
                    iters[gi] = iter(gen)
                    taken[gi] = 0
                try:
                    inst = next(iters[gi])
                except StopIteration:
                    seqs[gi].append("stop")
                    ctx.check(g["iteration_limit"] is not None and taken[gi] == g["iteration_limit"], "iteration_yields_limit",
                              lambda: f"generator {gi}: iteration stopped after {taken[gi]} instances, iteration_limit = {g['iteration_limit']} (generate() calls in between do not count)")
                else:
                    taken[gi] += 1
                    ctx.check(g["iteration_limit"] is None or taken[gi] <= g["iteration_limit"], "iteration_yields_limit",
                              lambda: f"generator {gi}: iteration yielded {taken[gi]} instances, iteration_limit = {g['iteration_limit']}")
                    check_instance(ctx, g, inst, names[gi], usage[gi], gi)
                    seqs[gi].append(plain(inst))
                    ctx.count("generated")
            elif kind == "list":
                if g["iteration_limit"] is None:
                    seqs[gi].append("skipped")
                else:
                    announced = len(gen)  # what list() and progress bars size themselves with
                    lst = list(gen)
                    iters[gi] = None
                    ctx.check(len(lst) == g["iteration_limit"], "iteration_yields_limit", lambda: f"generator {gi}: len(list(gen)) = {len(lst)}, iteration_limit = {g['iteration_limit']}")
                    ctx.check(announced == len(lst), "iteration_yields_limit", lambda: f"generator {gi}: len(gen) = {announced} but iteration yields {len(lst)} instances")
                    for inst in lst:
                        check_instance(ctx, g, inst, names[gi], usage[gi], gi)
                    seqs[gi].append([plain(x) for x in lst])
                    ctx.count("generated", len(lst))
                    ctx.probe("list_iteration")
        except Exception as e:  # noqa: BLE001
            from ..util import Violation

            if isinstance(e, Violation):
                raise
            ctx.fail("generate_raised", f"generator {gi} {g}: {kind} raised {short_exc(e)}", exc=type(e).__name__)
            return
        scripts[gi].append(kind)
        ctx.states.add(h64((h64(g), len(seqs[gi]))))

    for i, op in enumerate(case["ops"]):
        ctx.step = i
        kind = op[0]
        if kind == "rng_perturb":
            if op[2] is not None:
                random.seed(op[2])
            for _ in range(op[1]):
                random.random()
            ctx.fault("rng_perturb")
            ctx.count("interference")
            ctx.event(i, kind, op[1], op[2])
            continue
        if kind == "random_rule_solve":
            inst = JobShopInstance([[Operation([0, 1], 2), Operation(1, 1)], [Operation(0, 3), Operation([1, 0], 1)]])
            DispatchingRuleSolver(dispatching_rule="random", machine_chooser="random").solve(inst)
            ctx.fault("rng_consumer_interleaved")
            ctx.count("interference")
            ctx.event(i, kind)
            continue
        n_user = len(cfg["generators"])
        gi = op[1] % n_user
        explicit = (op[2], op[3], op[4]) if kind == "gen_explicit" else None
        act(gi, kind, explicit)
        if twin_idx is not None and gi == twin["of"]:
            act(twin_idx, kind, explicit)  # the sibling makes the same call right after (step-by-step interleaving)
            ctx.count("interference")
        ctx.event(i, kind, gi, h64(seqs[gi][-1]) if seqs[gi] else None)
    ctx.step = len(case["ops"])
    # twin built later in the same world, driven with the same script
    if twin and twin["placement"] == "later" and gens[twin["of"]] is not None:
        params.append(params[twin["of"]])
        add(params[-1])
        for kind in list(scripts[twin["of"]]):
            if isinstance(kind, tuple):
                continue  # explicit-size calls are not replayed on the late twin (they are not part of the sequence promise)
            act(len(gens) - 1, kind)
        ctx.probe("same_seed_generator_built_later")
        ctx.count("interference")
    # reproducibility: every seeded generator equals its solo reference run
    for gi, g in enumerate(params):
        if gens[gi] is None:
            continue
        drawn_from_all(ctx, usage[gi], gi, g)
        if g["seed"] is None:
            continue
        ref = solo_sequence(g, scripts[gi])
        if ref != seqs[gi]:
            k = next((x for x in range(min(len(ref), len(seqs[gi]))) if ref[x] != seqs[gi][x]), None)
            ctx.fail("same_seed_same_sequence", f"generator {gi} (seed {g['seed']}, params {g}): element {k} of its sequence is {seqs[gi][k] if k is not None else seqs[gi]}, "
                     f"but the same generator run alone produces {ref[k] if k is not None else ref}", placement=(twin or {}).get("placement") if gi >= len(cfg["generators"]) else "original")
        ctx.probe("seeded_sequence_compared")


def nontrivial(case, ctx):
    return ctx.counts.get("generated", 0) >= 3 and ctx.counts.get("interference", 0) >= 1


def simplify(case):
    cfg = case["cfg"]
    if cfg.get("twin"):
        yield {**case, "cfg": {**cfg, "twin": None}}
    gens = cfg["generators"]
    if len(gens) > 1 and not cfg.get("twin"):
        for k in range(len(gens)):
            yield {**case, "cfg": {**cfg, "generators": gens[:k] + gens[k + 1:]}}
    for k, g in enumerate(gens):
        for key, val in (("allow_recirculation", False), ("machines_per_operation", 1), ("iteration_limit", None), ("allow_less_jobs_than_machines", True)):
            if g[key] != val:
                yield {**case, "cfg": {**cfg, "generators": gens[:k] + [{**g, key: val}] + gens[k + 1:]}}
        for key in ("num_jobs", "num_machines"):
            lo, hi = rng_of(g[key])
            if hi > lo:
                yield {**case, "cfg": {**cfg, "generators": gens[:k] + [{**g, key: [lo, hi - 1]}] + gens[k + 1:]}}
