"""C12 - reset makes everything indistinguishable from new (fault enumeration:
the reset is injected at every prefix of a seeded history h1, then h2 is
replayed and compared step by step with a fresh twin)."""

import random

from .. import eworld
from ..dworld import DWorld, gen_filter, FEATURE_TYPES, LEVELS, BUILDERS, make_observer, mark_manual
from ..dworld import observe_dispatcher as _observe_dispatcher
from ..instances import gen_instance, n_ops
from ..util import stream, cjson, h64
from ..core import short_exc
from .c09 import diff_keys

PROP = "C12"
LEVEL = "fault_enumeration"
EVAL_COUNTER = "injection"  # evaluations = injected faults
N = {"quick": 2500, "thorough": 50000}
RULE = ("seeded (instance, filter, observer set in seeded creation order incl. dependencies created before or after "
        "their dependants and observers created mid-history; or single / multi environment configuration) and seeded "
        "histories h1, h2; reset() injected after EVERY prefix of h1 (0..n, incl. the complete schedule, chained so "
        "that repeated resets and later episodes are covered), then h2 replayed; full public snapshot compared with a "
        "fresh twin right after the reset and after every step of h2; evaluations = injected resets; non-trivial: "
        "|h1| >= 2 and |h2| >= 2; distinct = distinct (config, h1, h2) hashes")
REAL = ["Dispatcher.reset", "all feature observers", "CompositeFeatureObserver", "UnscheduledOperationsObserver", "HistoryObserver",
        "reward observers", "ResidualGraphUpdater / GraphUpdater.reset", "SingleJobShopGraphEnv.reset", "MultiJobShopGraphEnv.reset"]
STUB = []
ASSUMPTIONS = ["both twins run the same library code, so a wrong-but-deterministic feature value cancels out (C11 owns values); only staleness shows",
               "multi env: the generator draws from the global RNG (seed=None), whose state is set equal before the compared resets"]
STATE_MEASURE = "distinct (instance hash, tracking vectors at the reset point) tuples"


def observe_dispatcher(d):
    """Everything visible, including what the dispatcher answers when asked."""
    out = _observe_dispatcher(d)
    out["queries"] = {"available": [o.operation_id for o in d.available_operations()], "now": d.current_time(),
                      "completed": sorted(o.operation_id for o in d.completed_operations())}
    return out


def gen_observer_set(rng):
    obs = []
    types = [t for t in FEATURE_TYPES if rng.random() < 0.55] or [rng.choice(FEATURE_TYPES)]
    rng.shuffle(types)
    for t in types:
        lv = LEVELS[t]
        ft = None if rng.random() < 0.6 else ([x for x in lv if rng.random() < 0.6] or [rng.choice(lv)])
        obs.append({"t": t, "ft": ft})
    rest = []
    for s, p in (({"t": "unscheduled"}, 0.4), ({"t": "history"}, 0.4), ({"t": "makespan_reward"}, 0.4), ({"t": "idle_reward"}, 0.4)):
        if rng.random() < p:
            rest.append(s)
    if rng.random() < 0.5:
        rest.append({"t": "residual", "builder": rng.choice(BUILDERS), "rm": rng.random() < 0.8, "rj": rng.random() < 0.8,
                     "pre_removed": rng.randrange(16) if rng.random() < 0.15 else None})
    if rng.random() < 0.15:
        rest.append({"t": "edge_updater", "builder": rng.choice(BUILDERS)})  # a user-defined updater that only changes edges
    for s in rest:
        obs.insert(rng.randint(0, len(obs)), s)
    if rng.random() < 0.2 and len(obs) >= 2:
        # a suffix of the creation order is created mid-history in world A
        for s in obs[-rng.randint(1, 2):]:
            s["late"] = True
    elif rng.random() < 0.6:
        obs.append({"t": "composite"})
    return obs


def generate(seed, tier):
    rng = stream(seed, "c12")
    if rng.random() < 0.3:
        cfg = eworld.gen_env_cfg(rng)
        if cfg["env"] == "multi":
            cfg["gen"]["seed"] = None
            cfg["gen"]["machines_per_operation"] = 1
            cfg["gen"]["allow_recirculation"] = False
            n = cfg["gen"]["num_jobs"][1] * cfg["gen"]["num_machines"][1]
        else:
            n = n_ops(cfg["instance"])
        n = min(n, 10)
        mk = lambda k: [["env_step", rng.randrange(64), rng.randrange(64), int(rng.random() < 0.3), int(rng.random() < 0.5)] for _ in range(k)]  # noqa: E731
        return {"prop": PROP, "kind": "env", "cfg": cfg, "h1": mk(n if rng.random() < 0.5 else rng.randint(1, n)), "h2": mk(n if rng.random() < 0.6 else rng.randint(1, n)),
                "rng_state_seed": rng.randrange(1 << 30)}
    names, style = gen_filter(rng, None, p_none=0.5, user=0.15)
    spec = gen_instance(rng, sparse_ids=0.03, max_jobs=4, max_machines=4, max_ops=4, positive=True if names else None)
    n = n_ops(spec)
    mk = lambda k: [["dispatch", rng.randrange(64), rng.randrange(64), int(rng.random() < 0.5)] for _ in range(k)]  # noqa: E731
    cfg = {"instance": spec, "filter": names, "filter_style": style, "observers": mark_manual(stream(seed, "c12-manual"), gen_observer_set(rng), 0.06)}
    if rng.random() < 0.35:
        # world A starts with another filter, is looked at, and gets the configured filter assigned through the
        # public attribute before its first reset; from that reset on it must equal the twin built with it
        cfg["first_filter"] = rng.choice([[], ["non_idle_machines"], ["dominated_operations"], ["non_immediate_operations"]])
    return {"prop": PROP, "kind": "dispatch", "cfg": cfg,
            "h1": mk(n if rng.random() < 0.5 else rng.randint(1, n)), "h2": mk(n if rng.random() < 0.6 else rng.randint(1, n))}


def build_world(cfg, ctx, with_late, first_filter=None):
    c = dict(cfg, observers=[o for o in cfg["observers"] if with_late or not o.get("late")])
    if first_filter is not None:
        c = dict(c, filter=first_filter, filter_style="callable")
    w = DWorld(c, ctx)
    if len(w.observers) != len(c["observers"]):
        return None
    if first_filter is not None:
        from ..dworld import make_filter
        from ..model import Model

        w.disp.available_operations()
        w.disp.current_time()
        w.disp.ready_operations_filter = make_filter(cfg["filter"], cfg.get("filter_style", "callable"))
        w.filter_names = list(cfg["filter"])
        w.model = Model(w.jobs, w.filter_names)
        ctx.probe("filter_replaced_before_first_reset")
    return w


def execute_dispatch(case, ctx):
    cfg = case["cfg"]
    late = [o for o in cfg["observers"] if o.get("late")]
    # fresh twin B: everything created at the start, in the configured order
    b = build_world(cfg, ctx, with_late=True)
    a = build_world(cfg, ctx, with_late=not late, first_filter=cfg.get("first_filter"))
    if a is None or b is None:
        return
    trace_b = [observe_dispatcher(b.disp)]
    concrete = []
    for op in case["h2"]:
        r = b.resolve_dispatch(op[1], op[2], op[3])
        if r is None:
            break
        o, mm = r
        b.do_dispatch(o, mm)
        concrete.append((o.job_id, o.position_in_job, mm))
        trace_b.append(observe_dispatcher(b.disp))
    h1 = case["h1"]
    only = case.get("only")
    for k in range(len(h1) + 1):
        if only is not None and k != only:
            continue
        ctx.step = k
        # A: h1[:k], then the injected reset
        done = 0
        for op in h1[:k]:
            r = a.resolve_dispatch(op[1], op[2], op[3])
            if r is None:
                break
            a.do_dispatch(*r)
            done += 1
            ctx.count("dispatch")
        if late and k >= 1 and len(a.observers) < len(cfg["observers"]):
            for o in late:
                try:
                    a.observers.append((o, make_observer(a.disp, o)))
                except Exception as e:  # noqa: BLE001 - nothing is promised for observers built mid-history
                    ctx.event(k, "late_observer_failed", o["t"], type(e).__name__)
                    return
            ctx.probe("observer_created_mid_history")
        if late and len(a.observers) < len(cfg["observers"]):
            continue  # k = 0: the late observers do not exist yet; nothing to compare
        ctx.states.add(h64(a.abstract_state()))
        if a.model.is_complete():
            ctx.probe("reset_after_complete_schedule")
        a.do_reset()
        ctx.count("injection")
        ctx.event(k, "reset_after_prefix", done)
        compare(ctx, observe_dispatcher(a.disp), trace_b[0], f"right after reset following {done} dispatches (reset #{a.n_resets})")
        for i, (j, p, mm) in enumerate(concrete):
            a.do_dispatch(a.op_of(j, p), mm)
            compare(ctx, observe_dispatcher(a.disp), trace_b[i + 1], f"step {i + 1} of the episode after reset #{a.n_resets} (reset came after {done} dispatches)")
        if k < len(h1):
            a.do_reset()  # back to the start for the next, longer prefix
            if a.n_resets >= 4:
                ctx.probe("third_or_later_episode")


def compare(ctx, got, want, when):
    if cjson(got) != cjson(want):
        d = diff_keys(want, got)
        where = d.split(":")[0] if d else "?"
        typ = "?"
        try:
            if ".subs[" in where:
                idx = int(where.split(".subs[")[1].split("]")[0])
                typ = want["subs"][idx]["type"] if idx < len(want["subs"]) else "?"
        except Exception:  # pragma: no cover
            pass
        ctx.fail("reset_equals_fresh", f"{when}: differs from the fresh twin at {d} (observer {typ})", observer=typ)


def execute_env(case, ctx):
    cfg = case["cfg"]
    st0 = random.Random(case["rng_state_seed"]).getstate()
    st_reset = random.Random(case["rng_state_seed"] + 1).getstate()
    random.setstate(st0)
    b = eworld.EnvWorld(cfg, ctx)
    random.setstate(st0)
    a = eworld.EnvWorld(cfg, ctx)
    if a.dead or b.dead:
        return

    def do_reset(w):
        random.setstate(st_reset)  # the multi env's generator draws from the global RNG
        return w.reset()

    out = do_reset(b)
    if b.dead:
        return
    trace_b = [(eworld.obs_plain(out[0]), None, None, b.observe())]
    concrete = []
    for op in case["h2"]:
        r = b.resolve_step(op[1], op[2], op[3], op[4])
        if r is None:
            break
        o = b.step(*r)
        if b.dead:
            return
        concrete.append(r)
        trace_b.append((eworld.obs_plain(o[0]), float(o[1]), bool(o[2]), b.observe()))
    if b.multi:
        # the freshly constructed objects for this instance: a single-instance environment built directly from the
        # same configuration; the multi environment's episode must be indistinguishable from it
        spec = {"jobs": [[[list(ms), d] for ms, d in job] for job in b.jobs], "name": b.single.instance.name}
        c = eworld.EnvWorld({**cfg, "env": "single", "instance": spec, "render": False}, ctx)
        if not c.dead and c.reset() is not None and not c.dead:
            got = [(None, None, c.observe())]
            for r in concrete:
                o = c.step(*r)
                if c.dead:
                    break
                got.append((float(o[1]), bool(o[2]), c.observe()))
            else:
                for i, (g, t) in enumerate(zip(got, trace_b)):
                    when = f"step {i} of the multi environment's first episode"
                    if (g[0], g[1]) != (t[1], t[2]):
                        ctx.fail("multi_episode_equals_fresh_single_env", f"{when}: (reward, done) = {(t[1], t[2])}, a fresh single environment with the same configuration and instance gives {(g[0], g[1])}", what="reward_done")
                    if cjson(g[2]) != cjson(t[3]):
                        ctx.fail("multi_episode_equals_fresh_single_env", f"{when}: differs from a fresh single environment with the same configuration and instance at {diff_keys(g[2], t[3])}", what="internals")
                ctx.probe("multi_vs_fresh_single")
    h1 = case["h1"]
    only = case.get("only")
    for k in range(len(h1) + 1):
        if only is not None and k != only:
            continue
        ctx.step = k
        random.setstate(random.Random(case["rng_state_seed"] + 7 + k).getstate())
        if a.reset() is None or a.dead:  # every episode starts with a reset (Gymnasium contract)
            return
        done = 0
        for op in h1[:k]:
            r = a.resolve_step(op[1], op[2], op[3], op[4])
            if r is None:
                break
            a.step(*r)
            if a.dead:
                return
            done += 1
            ctx.count("env_step")
        ctx.states.add(h64((a.inst_hash, tuple(a.disp.job_next_operation_index), tuple(a.disp.machine_next_available_time))))
        out = do_reset(a)
        if a.dead:
            return
        ctx.count("injection")
        ctx.event(k, "env_reset_after_prefix", done)
        when = f"env.reset() after {done} steps of episode {a.episodes - 1}"
        cmp_env(ctx, (eworld.obs_plain(out[0]), None, None, a.observe()), trace_b[0], when)
        for i, r in enumerate(concrete):
            o = a.step(*r)
            if a.dead:
                return
            cmp_env(ctx, (eworld.obs_plain(o[0]), float(o[1]), bool(o[2]), a.observe()), trace_b[i + 1], f"step {i + 1} after {when}")
        if a.episodes >= 3:
            ctx.probe("third_or_later_episode")


def cmp_env(ctx, got, want, when):
    if cjson(got[0]) != cjson(want[0]):
        ctx.fail("env_episode_equals_first", f"{when}: observation differs from the fresh environment's at {diff_keys(want[0], got[0])}", what="observation")
    if got[1] != want[1] or got[2] != want[2]:
        ctx.fail("env_episode_equals_first", f"{when}: (reward, done) = {(got[1], got[2])}, fresh environment {(want[1], want[2])}", what="reward_done")
    if cjson(got[3]) != cjson(want[3]):
        ctx.fail("env_episode_equals_first", f"{when}: environment internals differ from the fresh environment's at {diff_keys(want[3], got[3])}", what="internals")


def execute(case, ctx):
    if case["kind"] == "env":
        return execute_env(case, ctx)
    return execute_dispatch(case, ctx)


def nontrivial(case, ctx):
    return len(case["h1"]) >= 2 and len(case["h2"]) >= 2 and ctx.counts.get("injection", 0) >= 2


def simplify(case):
    if case.get("only") is None:
        for k in range(len(case["h1"]) + 1):
            yield {**case, "only": k}
    for key in ("h1", "h2"):
        h = case[key]
        for i in range(len(h)):
            yield {**case, key: h[:i] + h[i + 1:]}
    if case["kind"] == "env":
        from .c18 import simplify as s18

        yield from s18(case)
