"""Small shared helpers: integer mixing, named PRNG streams, canonical JSON,
digests.  Nothing in here reads a clock or the global ``random`` module."""

from __future__ import annotations

import hashlib
import json
import random
import zlib

MASK = (1 << 64) - 1


def mix(*vals) -> int:
    """Deterministic 64-bit mix of integers / strings (splitmix64 rounds).

    Independent of PYTHONHASHSEED (never uses ``hash``)."""
    x = 0x9E3779B97F4A7C15
    for v in vals:
        if isinstance(v, str):
            v = zlib.crc32(v.encode()) | (len(v) << 32)
        x = (x ^ (int(v) & MASK)) & MASK
        x = (x + 0x9E3779B97F4A7C15) & MASK
        x = ((x ^ (x >> 30)) * 0xBF58476D1CE4E5B9) & MASK
        x = ((x ^ (x >> 27)) * 0x94D049BB133111EB) & MASK
        x = x ^ (x >> 31)
    return x


def stream(seed: int, name: str) -> random.Random:
    """A named private PRNG sub-stream of a run seed."""
    return random.Random(mix(seed, name))


def cjson(obj) -> str:
    return json.dumps(obj, sort_keys=True, separators=(",", ":"), default=_default)


def _default(o):
    # numpy scalars / arrays, sets, tuples as keys are normalised by callers;
    # this is a last resort so that logging never raises.
    try:
        import numpy as np

        if isinstance(o, np.ndarray):
            return o.tolist()
        if isinstance(o, np.generic):
            return o.item()
    except Exception:  # pragma: no cover
        pass
    if isinstance(o, (set, frozenset)):
        return sorted(o)
    return repr(o)


def digest(obj) -> str:
    return hashlib.sha256(cjson(obj).encode()).hexdigest()


def h64(obj) -> int:
    return int.from_bytes(hashlib.blake2b(cjson(obj).encode(), digest_size=8).digest(), "big")


class Violation(Exception):
    """Raised by an oracle: the property under check does not hold."""

    def __init__(self, oracle: str, message: str, **keys):
        super().__init__(f"{oracle}: {message}")
        self.oracle = oracle
        self.message = message
        self.keys = keys  # matched against known_findings.json "match"


class Foreign(Exception):
    """The library raised in a call that another property owns; the run is
    aborted and counted, never reported as a violation of this property."""

    def __init__(self, owner: str, message: str):
        super().__init__(f"{owner}: {message}")
        self.owner = owner
        self.message = message
