"""Seams owned by the simulator: clock, directory listing, CP-SAT solver
factory, frame sink.  All are installed through module attributes / public
parameters of the library and removed again by context managers."""

from __future__ import annotations

import contextlib
import random


class SimClock:
    """Stands in for the ``time`` module inside a library module.  Every read
    advances simulated time by a seeded increment; faults: ``stall`` (0) and
    ``jump`` (1e3..1e6 s).  Never goes backwards (perf_counter is monotonic)."""

    def __init__(self, seed, ctx=None, p_stall=0.2, p_jump=0.15):
        self.rng = random.Random(seed)
        self.now = 1000.0 + self.rng.random()
        self.ctx = ctx
        self.reads = 0
        self.p_stall, self.p_jump = p_stall, p_jump
        self.start = self.now

    def _tick(self):
        self.reads += 1
        r = self.rng.random()
        if r < self.p_stall:
            inc = 0.0
            if self.ctx:
                self.ctx.fault("clock_stall")
        elif r < self.p_stall + self.p_jump:
            inc = self.rng.uniform(1e3, 1e6)
            if self.ctx:
                self.ctx.fault("clock_jump")
        else:
            inc = self.rng.uniform(1e-6, 0.05)
        self.now += inc
        if self.ctx:
            self.ctx.clock_s = self.now - self.start
        return self.now

    def perf_counter(self):
        return self._tick()

    def monotonic(self):
        return self._tick()

    def time(self):
        return self._tick()

    def process_time(self):
        return self._tick()

    def perf_counter_ns(self):
        return int(self._tick() * 1e9)

    def sleep(self, s):
        self.now += max(0.0, s)


@contextlib.contextmanager
def patched(module, name, value):
    old = getattr(module, name)
    setattr(module, name, value)
    try:
        yield value
    finally:
        setattr(module, name, old)


def cpsat_factory(seed, det_budget=None, record=None):
    """Subclass of CpSolver pinned to one worker and a fixed seed; optionally a
    deterministic-time budget (fault `solver_time_budget`); records the raw
    status of every solve."""
    from ortools.sat.python import cp_model

    base = cp_model.CpSolver

    class PinnedCpSolver(base):
        def __init__(self, *a, **k):
            super().__init__(*a, **k)
            self.parameters.num_workers = 1
            self.parameters.random_seed = seed % (2 ** 31 - 1)
            if det_budget is not None:
                self.parameters.max_deterministic_time = det_budget

        def solve(self, model, *a, **k):  # `Solve` delegates here
            status = super().solve(model, *a, **k)
            if record is not None:
                record.append(int(status))
            return status

    return PinnedCpSolver
